"""pyvc symbolic executor: interprets the AST of the real /repo source, path by path.

Values are native Python objects (everything concrete is executed by CPython itself: z3 term
construction, regexes on literals, keccak, ...) plus SymInt / SymBool for unknown ints / bools.
Instances of repo classes are real instances whose fields may hold symbolic values; their
methods are always taken from the AST, never from the compiled code.

Path exploration: re-execution with a decision schedule (DFS over branch decisions); no heap
snapshots are needed.  Obligations are recorded with the path condition in force.
"""
from __future__ import annotations

import ast
import os
import builtins
import operator
import sys
import types

import z3

from . import loader
from .sym import (
    BITLEN,
    POW,
    POW2,
    EngineError,
    SymBool,
    SymInt,
    Unmodelled,
    contains_sym,
    iexpr,
    is_sym,
    mk_exact,
    to_bv,
    view_of,
)

# --------------------------------------------------------------------------------------
# control signals (never caught by interpreted `except`)


class _Signal(BaseException):
    pass


class ReturnSig(_Signal):
    def __init__(self, value):
        self.value = value


class BreakSig(_Signal):
    pass


class ContinueSig(_Signal):
    pass


class PathEnd(_Signal):
    """abandon this path (assumption false / loop body proved / infeasible)"""

    def __init__(self, reason=""):
        self.reason = reason


_ENGINE = (_Signal, EngineError)


# --------------------------------------------------------------------------------------
# obligations and path context


class Obligation:
    __slots__ = ("oid", "clause", "hyps_i", "hyps_b", "goal_i", "goal_b", "info", "kind", "links")

    def __init__(self, oid, clause, hyps_i, hyps_b, goal_i, goal_b, info, kind="prove", links=()):
        self.links = list(links)
        self.oid = oid
        self.clause = clause
        self.hyps_i = hyps_i
        self.hyps_b = hyps_b
        self.goal_i = goal_i
        self.goal_b = goal_b
        self.info = info
        self.kind = kind  # prove | cover


class PathCtx:
    """state of one path of one run"""

    unknown_feasibility = 0

    def __init__(self, prefix, branch_timeout_ms=2000):
        self.branch_timeout_ms = branch_timeout_ms
        self.prefix = list(prefix)
        self.decisions = []
        self.pc_i = []
        self.pc_b = []
        self.solver = z3.Solver()  # int-form facts
        self.solver.set("timeout", branch_timeout_ms)
        self.solver_b = z3.Solver()  # bit-vector-form facts
        self.solver_b.set("timeout", branch_timeout_ms)
        self.links = []  # definitional facts  name!i == bv2nat(name)
        self.pending = []  # alternative prefixes discovered on this run
        self.obligations = []
        self.ghost_log = []
        self.notes = []
        self.fresh_counter = 0
        self.int_views = set()  # ids/names of BV constants that are views of symbolic ints
        self.unit = "?"
        self.case = ""

    # -- naming
    def fresh(self, base):
        self.fresh_counter += 1
        return f"{base}!{self.fresh_counter}"

    def new_int_input(self, name, W):
        """a symbolic python int in [0, 2^W): Int constant name!i + exact bit-vector view name"""
        from .sym import int_input, link_fact

        s, facts = int_input(name, W)
        for f in facts:
            self.assume(f, z3.BoolVal(True))
        self.int_views.add(name)
        self.links.append(link_fact(name, W))
        return s

    # -- assumptions
    def assume(self, f_i, f_b=None):
        if f_b is None:
            f_b = f_i
        if z3.is_false(z3.simplify(f_i)) or z3.is_false(z3.simplify(f_b)):
            raise PathEnd("assumption is false")
        self.pc_i.append(f_i)
        self.pc_b.append(f_b)
        self.solver.add(f_i)
        self.solver_b.add(f_b)

    def in_new_territory(self):
        return len(self.decisions) >= len(self.prefix)

    def feasible(self, f_i=None, f_b=None):
        """both fact sets describe the same state: infeasible if either is unsatisfiable"""
        if f_b is None:
            f_b = f_i
        rb = self._check(self.solver_b, f_b)
        if rb == z3.unsat:
            return False
        ri = self._check(self.solver, f_i)
        return ri != z3.unsat

    def _check(self, solver, f):
        """an undecided feasibility query (z3's timeout is wall time, so a loaded machine produces them) is
        asked once more with five times the budget before the branch is conservatively treated as feasible"""
        args = [f] if f is not None else []
        r = solver.check(*args)
        if r == z3.unknown:
            PathCtx.unknown_feasibility += 1
            if os.environ.get("VERIF_FEAS_LOG"):
                with open(os.environ["VERIF_FEAS_LOG"], "a") as fh:
                    fh.write(f"{self.unit}/{self.case}\n")
            solver.set("timeout", self.branch_timeout_ms * 5)
            try:
                r = solver.check(*args)
            finally:
                solver.set("timeout", self.branch_timeout_ms)
        return r

    def assume_checked(self, f_i, f_b=None):
        self.assume(f_i, f_b)
        if not self.feasible():
            raise PathEnd("assumption contradicts the path condition")

    # -- branching
    def branch(self, sb):
        """decide a symbolic bool on this path; explores the other side on a later run"""
        if isinstance(sb, bool):
            return sb
        ci = z3.simplify(sb.i)
        cb = z3.simplify(sb.b)
        if z3.is_true(ci) or z3.is_true(cb):
            return True
        if z3.is_false(ci) or z3.is_false(cb):
            return False
        idx = len(self.decisions)
        if idx < len(self.prefix):
            d = self.prefix[idx]
        else:
            can_t = self.feasible(sb.i, sb.b)
            can_f = self.feasible(z3.Not(sb.i), z3.Not(sb.b))
            if can_t and can_f:
                d = True
                self.pending.append(self.decisions + [False])
            elif can_t:
                d = True
            elif can_f:
                d = False
            else:
                raise PathEnd("path condition became unsatisfiable")
        self.decisions.append(d)
        if d:
            self.assume(sb.i, sb.b)
        else:
            self.assume(z3.Not(sb.i), z3.Not(sb.b))
        return d

    def choose(self, n, label=""):
        """nondeterministic choice in range(n) (binary encoded as unary decisions)"""
        for k in range(n - 1):
            idx = len(self.decisions)
            if idx < len(self.prefix):
                d = self.prefix[idx]
            else:
                d = True
                self.pending.append(self.decisions + [False])
            self.decisions.append(d)
            if d:
                return k
        return n - 1

    # -- obligations
    def oblige(self, clause, goal_i, goal_b=None, info=None, kind="prove"):
        if not self.in_new_territory():
            return
        if goal_b is None:
            goal_b = goal_i
        if isinstance(goal_i, bool):
            goal_i = z3.BoolVal(goal_i)
        if isinstance(goal_b, bool):
            goal_b = z3.BoolVal(goal_b)
        oid = f"{self.unit}/{clause}/{self.case}"
        self.obligations.append(
            Obligation(oid, clause, list(self.pc_i), list(self.pc_b), goal_i, goal_b, info or {}, kind, self.links)
        )

    def cover(self, clause="cover"):
        """vacuity guard: the path condition reached here must be satisfiable"""
        if not self.in_new_territory():
            return
        oid = f"{self.unit}/{clause}/{self.case}"
        self.obligations.append(
            Obligation(oid, clause, list(self.pc_i), list(self.pc_b), None, None, {}, "cover", self.links)
        )


# --------------------------------------------------------------------------------------
# function-like values


class InterpFunction:
    """closure created by interpreting a def/lambda"""

    def __init__(self, interp, node, env, sf, defaults, kwdefaults, defining_class=None, qual=""):
        self.interp = interp
        self.node = node
        self.env = env
        self.sf = sf
        self.defaults = defaults
        self.kwdefaults = kwdefaults
        self.defining_class = defining_class
        self.__name__ = getattr(node, "name", "<lambda>")
        self.__qualname__ = qual or self.__name__

    def __call__(self, *args, **kwargs):
        return self.interp.call(self, list(args), kwargs)

    def __get__(self, obj, objtype=None):
        return self if obj is None else BoundMethod(self, obj)


class BoundMethod:
    def __init__(self, func, self_obj):
        self.func = func
        self.self_obj = self_obj
        self.__name__ = getattr(func, "__name__", "?")

    def __call__(self, *args, **kwargs):
        interp = Interp.current
        return interp.call(self.func, [self.self_obj] + list(args), kwargs)

    @property
    def __self__(self):
        return self.self_obj

    @property
    def __func__(self):
        return self.func


class SuperProxy:
    def __init__(self, cls, obj):
        self.cls = cls
        self.obj = obj


class EagerGen:
    """result of calling an interpreted generator function (evaluated eagerly; DESIGN 2.2)"""

    def __init__(self, items, value=None, exc=None):
        self.items = items
        self.value = value
        self.exc = exc
        self._it = iter(items)

    def __iter__(self):
        return self

    def __next__(self):
        try:
            return next(self._it)
        except StopIteration:
            if self.exc is not None:
                e, self.exc = self.exc, None
                raise e from None
            raise

    def close(self):
        self._it = iter(())
        self.exc = None


class Env:
    __slots__ = ("vars", "parent", "globals", "global_names", "nonlocal_names")

    def __init__(self, vars_, parent, globals_):
        self.vars = vars_
        self.parent = parent
        self.globals = globals_
        self.global_names = set()
        self.nonlocal_names = set()

    def lookup(self, name):
        e = self
        while e is not None:
            if name in e.vars and name not in e.global_names:
                return e.vars[name]
            e = e.parent
        g = self.globals
        if name in g:
            return g[name]
        try:
            return getattr(builtins, name)
        except AttributeError:
            raise NameError(f"name '{name}' is not defined") from None

    def store(self, name, value):
        if name in self.global_names:
            self.globals[name] = value
            return
        if name in self.nonlocal_names:
            e = self.parent
            while e is not None:
                if name in e.vars:
                    e.vars[name] = value
                    return
                e = e.parent
            raise EngineError(f"nonlocal {name} not found")
        self.vars[name] = value

    def delete(self, name):
        del self.vars[name]


class Frame:
    def __init__(self, qual, defining_class=None, first_arg=None, is_gen=False):
        self.qual = qual
        self.defining_class = defining_class
        self.first_arg = first_arg
        self.yields = [] if is_gen else None
        self.loop_ordinal = 0


_BINOPS = {
    ast.Add: operator.add,
    ast.Sub: operator.sub,
    ast.Mult: operator.mul,
    ast.Div: operator.truediv,
    ast.FloorDiv: operator.floordiv,
    ast.Mod: operator.mod,
    ast.Pow: operator.pow,
    ast.LShift: operator.lshift,
    ast.RShift: operator.rshift,
    ast.BitOr: operator.or_,
    ast.BitXor: operator.xor,
    ast.BitAnd: operator.and_,
    ast.MatMult: operator.matmul,
}
_IBINOPS = {
    ast.Add: operator.iadd,
    ast.Sub: operator.isub,
    ast.Mult: operator.imul,
    ast.Div: operator.itruediv,
    ast.FloorDiv: operator.ifloordiv,
    ast.Mod: operator.imod,
    ast.Pow: operator.ipow,
    ast.LShift: operator.ilshift,
    ast.RShift: operator.irshift,
    ast.BitOr: operator.ior,
    ast.BitXor: operator.ixor,
    ast.BitAnd: operator.iand,
}
_DUNDER = {
    ast.Add: ("__add__", "__radd__"),
    ast.Sub: ("__sub__", "__rsub__"),
    ast.Mult: ("__mul__", "__rmul__"),
    ast.Div: ("__truediv__", "__rtruediv__"),
    ast.FloorDiv: ("__floordiv__", "__rfloordiv__"),
    ast.Mod: ("__mod__", "__rmod__"),
    ast.Pow: ("__pow__", "__rpow__"),
    ast.LShift: ("__lshift__", "__rlshift__"),
    ast.RShift: ("__rshift__", "__rrshift__"),
    ast.BitOr: ("__or__", "__ror__"),
    ast.BitXor: ("__xor__", "__rxor__"),
    ast.BitAnd: ("__and__", "__rand__"),
}
_CMP_NATIVE = {
    ast.Eq: operator.eq,
    ast.NotEq: operator.ne,
    ast.Lt: operator.lt,
    ast.LtE: operator.le,
    ast.Gt: operator.gt,
    ast.GtE: operator.ge,
}
_CMP_DUNDER = {
    ast.Eq: ("__eq__", "__eq__"),
    ast.NotEq: ("__ne__", "__ne__"),
    ast.Lt: ("__lt__", "__gt__"),
    ast.LtE: ("__le__", "__ge__"),
    ast.Gt: ("__gt__", "__lt__"),
    ast.GtE: ("__ge__", "__le__"),
}

COST_POW_MAX_EXP = 1 << 16
COST_SHIFT_MAX = 1 << 16

_MISSING = object()


def mro_lookup(cls, name):
    for k in cls.__mro__:
        d = k.__dict__
        if name in d:
            return d[name], k
    return _MISSING, None


def is_intlike(x):
    return isinstance(x, int) or is_sym(x)


class Interp:
    current = None

    def __init__(self, ctx: PathCtx, contracts=None, externals=None, loop_specs=None, opts=None):
        self.ctx = ctx
        self.contracts = contracts or {}
        self.externals = dict(DEFAULT_EXTERNALS)
        if externals:
            self.externals.update(externals)
        self.loop_specs = loop_specs or {}
        self.frames = []
        self.opts = opts or {}
        self.inlined = set()
        self.call_depth = 0
        self.step_hook = None
        Interp.current = self

    # ------------------------------------------------------------------ truthiness
    def truth(self, v):
        t = type(v)
        if t is bool:
            return v
        if t is SymBool:
            return self.ctx.branch(v)
        if t is SymInt:
            return self.ctx.branch(self.cmp_int(ast.NotEq, v, 0))
        if v is None:
            return False
        if loader.is_repo_class(t):
            f, _ = mro_lookup(t, "__bool__")
            if f is not _MISSING and f is not None:
                return self.truth(self.call(f, [v], {}))
            f, _ = mro_lookup(t, "__len__")
            if f is not _MISSING and f is not None:
                n = self.call(f, [v], {})
                return self.truth(self.compare(ast.NotEq, n, 0))
            return True
        if isinstance(v, z3.ExprRef):
            # z3's own __bool__ (structural for ==/!=, raises otherwise)
            return bool(v)
        return bool(v)

    def as_symbool(self, v):
        if type(v) is SymBool:
            return v
        return SymBool(z3.BoolVal(bool(self.truth(v))))

    def concretize_unique(self, v):
        """if the path condition forces a single value for the symbolic int, return it"""
        ctx = self.ctx
        e = iexpr(v)
        s = ctx.solver
        if s.check() != z3.sat:
            raise Unmodelled("symbolic bound: path condition not decidably satisfiable")
        val = s.model().eval(e, model_completion=True)
        if not z3.is_int_value(val):
            raise Unmodelled("symbolic bound without a numeral value")
        if s.check(e != val) != z3.unsat:
            raise Unmodelled("range() with a symbolic bound that is not unique on this path (needs a loop invariant)")
        return val.as_long()

    # ------------------------------------------------------------------ integers
    def cost_obligation(self, clause, goal):
        self.ctx.oblige(clause, goal)

    def int_op(self, op, a, b):
        """arithmetic on int-like values, at least one symbolic"""
        ctx = self.ctx
        ea, eb = iexpr(a), iexpr(b)
        wa = a.view[1] if type(a) is SymInt and a.view else None
        wb = b.view[1] if type(b) is SymInt and b.view else None
        W = max([w for w in (wa, wb) if w is not None], default=None)
        va = view_of(a, W) if W else None
        vb = view_of(b, W) if W else None
        both = va is not None and vb is not None

        if op in (ast.Add, ast.Sub, ast.Mult):
            e = {ast.Add: ea + eb, ast.Sub: ea - eb, ast.Mult: ea * eb}[op]
            view = None
            if both and va[1] and vb[1] and op is ast.Add:
                view = (z3.ZeroExt(1, va[0]) + z3.ZeroExt(1, vb[0]), W + 1, True)
            elif both and va[1] and vb[1] and op is ast.Mult:
                view = (z3.ZeroExt(W, va[0]) * z3.ZeroExt(W, vb[0]), 2 * W, True)
            elif both:
                f = {ast.Add: operator.add, ast.Sub: operator.sub, ast.Mult: operator.mul}[op]
                view = (f(va[0], vb[0]), W, False)
            return SymInt(e, view)

        if op in (ast.FloorDiv, ast.Mod):
            if self.truth(self.cmp_int(ast.Eq, b, 0)):
                raise ZeroDivisionError("integer division or modulo by zero")
            pos = self.truth(self.cmp_int(ast.Gt, b, 0))
            if pos:
                e = ea / eb if op is ast.FloorDiv else ea % eb
            else:
                q = (-ea) / (-eb)
                e = q if op is ast.FloorDiv else ea - eb * q
            view = None
            if pos and both and va[1] and vb[1]:
                view = ((z3.UDiv if op is ast.FloorDiv else z3.URem)(va[0], vb[0]), W, True)
            return SymInt(e, view)

        if op is ast.BitAnd:
            # mask 2^n - 1
            for x, y, vx in ((a, b, va), (b, a, vb)):
                if isinstance(y, int) and not is_sym(y) and y >= 0 and (y + 1) & y == 0:
                    n = int(y).bit_length()
                    if n == 0:
                        return 0
                    e = iexpr(x) % (1 << n)
                    view = None
                    xv = x.view if type(x) is SymInt else None
                    if xv is not None:
                        bv, W0, exact = xv
                        if W0 >= n:
                            view = (bv if W0 == n else z3.Extract(n - 1, 0, bv), n, True)
                        elif exact:
                            view = (bv, W0, True)
                    return SymInt(e, view)
        if op is ast.BitAnd:
            # contiguous mask ((2^n - 1) << k): ((x div 2^k) mod 2^n) * 2^k
            for x, y in ((a, b), (b, a)):
                if isinstance(y, int) and not is_sym(y) and y > 0:
                    k = (y & -y).bit_length() - 1
                    top = y >> k
                    if (top + 1) & top == 0:
                        n = top.bit_length()
                        e = ((iexpr(x) / (1 << k)) % (1 << n)) * (1 << k)
                        view = None
                        if W:
                            vx = view_of(x, W)
                            if vx is not None and k + n <= W:
                                view = (vx[0] & z3.BitVecVal(y, W), W, True)
                        return SymInt(e, view)
        if op in (ast.BitAnd, ast.BitOr, ast.BitXor):
            if not both:
                raise Unmodelled(f"bitwise {op.__name__} on integers without a bit-vector view")
            f = {ast.BitAnd: operator.and_, ast.BitOr: operator.or_, ast.BitXor: operator.xor}[op]
            exact = (va[1] or vb[1]) if op is ast.BitAnd else (va[1] and vb[1])
            if not exact:
                raise Unmodelled("bitwise op on possibly negative symbolic integers")
            r = f(va[0], vb[0])
            return SymInt(z3.BV2Int(r), (r, W, True))

        if op is ast.LShift:
            if is_sym(b):
                if self.truth(self.cmp_int(ast.Lt, b, 0)):
                    raise ValueError("negative shift count")
                self.cost_obligation("cost/shift", eb <= COST_SHIFT_MAX)
                e = ea * POW2(eb)
                view = None
                if both and vb[1]:
                    view = (va[0] << vb[0], W, False)
                return SymInt(e, view)
            if b < 0:
                raise ValueError("negative shift count")
            if b > COST_SHIFT_MAX:
                self.cost_obligation("cost/shift", z3.BoolVal(False))
            e = ea * (1 << b)
            view = (va[0] << b, W, False) if va is not None else None
            return SymInt(e, view)

        if op is ast.RShift:
            if is_sym(b):
                if self.truth(self.cmp_int(ast.Lt, b, 0)):
                    raise ValueError("negative shift count")
                e = ea / POW2(eb)
                ctx.assume(POW2(eb) >= 1)
                view = None
                if both and va[1] and vb[1]:
                    view = (z3.LShR(va[0], vb[0]), W, True)
                return SymInt(e, view)
            if b < 0:
                raise ValueError("negative shift count")
            e = ea / (1 << b)
            view = None
            if va is not None and va[1]:
                view = (z3.LShR(va[0], z3.BitVecVal(b, W)) if b < (1 << W) else z3.BitVecVal(0, W), W, True)
            return SymInt(e, view)

        if op is ast.Pow:
            # cost: produced promptly only for small exponents or trivial bases
            self.cost_obligation(
                "cost/pow", z3.Or(eb <= COST_POW_MAX_EXP, z3.And(ea >= -1, ea <= 1))
            )
            if self.truth(self.cmp_int(ast.Lt, b, 0)):
                raise Unmodelled("negative exponent")
            return SymInt(POW(ea, eb))

        if op is ast.Div:
            raise Unmodelled("true division on symbolic ints (float)")
        raise Unmodelled(f"int op {op.__name__}")

    def cmp_int(self, op, a, b):
        ea, eb = iexpr(a), iexpr(b)
        f = _CMP_NATIVE[op]
        i = f(ea, eb)
        wa = a.view[1] if type(a) is SymInt and a.view else None
        wb = b.view[1] if type(b) is SymInt and b.view else None
        W = max([w for w in (wa, wb) if w is not None], default=None)
        bform = i
        if W:
            va, vb = view_of(a, W), view_of(b, W)
            if va and vb and va[1] and vb[1]:
                g = {
                    ast.Eq: operator.eq,
                    ast.NotEq: operator.ne,
                    ast.Lt: z3.ULT,
                    ast.LtE: z3.ULE,
                    ast.Gt: z3.UGT,
                    ast.GtE: z3.UGE,
                }[op]
                bform = g(va[0], vb[0])
            else:
                # one side is a concrete int outside [0, 2^W) and the other is exact
                for x, y, flip in ((a, b, False), (b, a, True)):
                    vx = view_of(x, W)
                    if vx and vx[1] and isinstance(y, int) and not is_sym(y):
                        lo_ok = int(y) < 0
                        # x in [0,2^W), y outside
                        res = {
                            ast.Eq: False,
                            ast.NotEq: True,
                            ast.Lt: (not lo_ok) if not flip else lo_ok,
                            ast.LtE: (not lo_ok) if not flip else lo_ok,
                            ast.Gt: lo_ok if not flip else (not lo_ok),
                            ast.GtE: lo_ok if not flip else (not lo_ok),
                        }[op]
                        bform = z3.BoolVal(res)
                        break
        return SymBool(i, bform)

    def unary(self, op, v):
        if type(op) is ast.Not:
            t = type(v)
            if t is SymBool:
                return SymBool(z3.Not(v.i), z3.Not(v.b))
            return not self.truth(v)
        if is_sym(v):
            if type(op) is ast.USub:
                e = iexpr(v)
                W = v.view[1] if type(v) is SymInt and v.view else None
                view = (-(v.view[0]), W, False) if W else None
                return SymInt(-e, view)
            if type(op) is ast.UAdd:
                return v if type(v) is SymInt else SymInt(iexpr(v))
            if type(op) is ast.Invert:
                e = iexpr(v)
                W = v.view[1] if type(v) is SymInt and v.view else None
                view = (~(v.view[0]), W, False) if W else None
                return SymInt(-e - 1, view)
        t = type(v)
        if loader.is_repo_class(t):
            name = {ast.USub: "__neg__", ast.UAdd: "__pos__", ast.Invert: "__invert__"}[type(op)]
            f, _ = mro_lookup(t, name)
            if f is not _MISSING:
                return self.call(f, [v], {})
        return {ast.USub: operator.neg, ast.UAdd: operator.pos, ast.Invert: operator.invert}[type(op)](v)

    # ------------------------------------------------------------------ binary operators
    def coerce_for_z3(self, s, other):
        """what z3py's coercion would make of the python int/bool `s` next to term `other`"""
        if isinstance(other, z3.BitVecRef):
            return to_bv(s, other.size())
        if isinstance(other, z3.BoolRef):
            if type(s) is SymBool:
                return s.b
            raise Unmodelled("symbolic int coerced to z3 Bool")
        if isinstance(other, z3.ArithRef):
            return iexpr(s)
        raise Unmodelled(f"coercion of symbolic value next to {type(other).__name__}")

    def binop(self, op, a, b, inplace=False):
        sa, sb_ = is_sym(a), is_sym(b)
        if sa or sb_:
            if is_intlike(a) and is_intlike(b):
                return self.int_op(op, a, b)
            other = b if sa else a
            if isinstance(other, z3.ExprRef):
                if sa:
                    a = self.coerce_for_z3(a, other)
                else:
                    b = self.coerce_for_z3(b, other)
                self.sort_obligation(op, a, b)
                return _BINOPS[op](a, b)
            if loader.is_repo_class(type(other)):
                pass  # fall through to dunder dispatch
            elif op is ast.Mult and isinstance(other, bytes) and len(other) == 1 and type(a if sa else b) is SymInt:
                n = a if sa else b
                if self.truth(self.cmp_int(ast.LtE, n, 0)):
                    return b""
                return ConstData(other[0], n)
            else:
                raise Unmodelled(f"{op.__name__} between symbolic int and {type(other).__name__}")
        ta, tb = type(a), type(b)
        ra, rb = loader.is_repo_class(ta), loader.is_repo_class(tb)
        if ra or rb:
            d, rd = _DUNDER[op]
            if ra:
                f, _ = mro_lookup(ta, d)
                if f is not _MISSING:
                    r = self.call(f, [a, b], {})
                    if r is not NotImplemented:
                        return r
            if rb:
                f, _ = mro_lookup(tb, rd)
                if f is not _MISSING:
                    r = self.call(f, [b, a], {})
                    if r is not NotImplemented:
                        return r
            if ra and rb:
                raise TypeError(
                    f"unsupported operand type(s) for {op.__name__}: '{ta.__name__}' and '{tb.__name__}'"
                )
            # one native side: let CPython decide (native dunder of the other operand)
        if isinstance(a, z3.ExprRef) or isinstance(b, z3.ExprRef):
            self.sort_obligation(op, a, b)
        f = (_IBINOPS if inplace else _BINOPS)[op]
        return f(a, b)

    def sort_obligation(self, op, a, b):
        """z3py raises on width mismatch; make it visible as a named obligation"""
        if isinstance(a, z3.BitVecRef) and isinstance(b, z3.BitVecRef) and a.size() != b.size():
            self.ctx.oblige("sort/bv-width", z3.BoolVal(False), info={"a": a.size(), "b": b.size()})

    # ------------------------------------------------------------------ comparison
    def compare(self, op, a, b):
        if op is ast.Is:
            return a is b
        if op is ast.IsNot:
            return a is not b
        if op is ast.In:
            return self.contains(b, a)
        if op is ast.NotIn:
            r = self.contains(b, a)
            return self.unary(ast.Not(), r)
        sa, sb_ = is_sym(a), is_sym(b)
        if sa or sb_:
            if is_intlike(a) and is_intlike(b):
                if type(a) is SymBool and type(b) is SymBool and op in (ast.Eq, ast.NotEq):
                    i = a.i == b.i if op is ast.Eq else a.i != b.i
                    bb = a.b == b.b if op is ast.Eq else a.b != b.b
                    return SymBool(i, bb)
                return self.cmp_int(op, a, b)
            other = b if sa else a
            if isinstance(other, z3.ExprRef):
                if sa:
                    a = self.coerce_for_z3(a, other)
                else:
                    b = self.coerce_for_z3(b, other)
                return _CMP_NATIVE[op](a, b)
            if other is None or isinstance(other, (str, bytes, tuple, list, dict, set, type)):
                if op is ast.Eq:
                    return False
                if op is ast.NotEq:
                    return True
                raise TypeError("unorderable")
            if not loader.is_repo_class(type(other)):
                raise Unmodelled(f"compare symbolic with {type(other).__name__}")
        ta, tb = type(a), type(b)
        ra, rb = loader.is_repo_class(ta), loader.is_repo_class(tb)
        if ra or rb:
            d, rd = _CMP_DUNDER[op]
            if not ra and not is_sym(a) and not isinstance(b, ta):
                # CPython asks the left operand first (unless the right one is a subclass instance):
                # e.g. a z3 term compared with a repo wrapper is z3's own comparison
                m = getattr(ta, d, None)
                if m is not None:
                    try:
                        r = m(a, b)
                    except _ENGINE:
                        raise
                    if r is not NotImplemented:
                        return r
            if ra:
                f, k = mro_lookup(ta, d)
                if f is not _MISSING and k is not object and f is not None:
                    r = self.call(f, [a, b], {})
                    if r is not NotImplemented:
                        return r
            if rb:
                f, k = mro_lookup(tb, rd)
                if f is not _MISSING and k is not object and f is not None:
                    r = self.call(f, [b, a], {})
                    if r is not NotImplemented:
                        return r
            if op is ast.NotEq:
                # default __ne__ inverts __eq__
                return self.unary(ast.Not(), self.compare(ast.Eq, a, b))
            if op is ast.Eq:
                return a is b
            raise TypeError(f"'{op.__name__}' not supported between instances")
        if isinstance(a, (tuple, list)) and type(a) is type(b) and op in (ast.Eq, ast.NotEq):
            if contains_sym(a) or contains_sym(b) or any(loader.is_repo_class(type(x)) for x in list(a) + list(b)):
                r = self.seq_eq(a, b)
                return r if op is ast.Eq else self.unary(ast.Not(), r)
        return _CMP_NATIVE[op](a, b)

    def seq_eq(self, a, b):
        if len(a) != len(b):
            return False
        for x, y in zip(a, b):
            if x is y:
                continue
            if not self.truth(self.compare(ast.Eq, x, y)):
                return False
        return True

    def contains(self, container, item):
        t = type(container)
        if loader.is_repo_class(t):
            f, _ = mro_lookup(t, "__contains__")
            if f is not _MISSING:
                return self.truth(self.call(f, [container, item], {}))
            raise Unmodelled("in: repo container without __contains__")
        h = self.externals.get(("contains", t))
        if h is not None:
            return h(self, container, item)
        if isinstance(container, (list, tuple)):
            needs = is_sym(item) or loader.is_repo_class(type(item)) or contains_sym(container)
            if needs or any(loader.is_repo_class(type(x)) for x in container):
                acc = False
                for x in container:
                    if x is item:
                        return True
                    r = self.compare(ast.Eq, x, item)
                    if type(r) is SymBool:
                        acc = r if acc is False else SymBool(z3.Or(acc.i, r.i), z3.Or(acc.b, r.b))
                    elif self.truth(r):
                        return True
                return acc
        if is_sym(item):
            if isinstance(container, range):
                lo = self.cmp_int(ast.GtE, item, container.start)
                hi = self.cmp_int(ast.Lt, item, container.stop)
                if container.step != 1:
                    raise Unmodelled("symbolic in stepped range")
                return SymBool(z3.And(lo.i, hi.i), z3.And(lo.b, hi.b))
            if isinstance(container, (set, frozenset, dict)) and all(
                isinstance(k, int) for k in container
            ):
                if len(container) > 64:
                    raise Unmodelled("symbolic membership in a large set")
                acc = None
                for k in container:
                    r = self.cmp_int(ast.Eq, item, k)
                    acc = r if acc is None else SymBool(z3.Or(acc.i, r.i), z3.Or(acc.b, r.b))
                return acc if acc is not None else False
            raise Unmodelled(f"symbolic membership in {t.__name__}")
        return item in container

    # ------------------------------------------------------------------ attributes
    def get_attr(self, obj, name):
        t = type(obj)
        if t is SymInt or t is SymBool:
            if not hasattr(int, name):  # a symbolic int/bool has exactly the attributes of int (bool is a subclass)
                raise AttributeError(f"'int' object has no attribute '{name}'")
            return SymMethod(self, obj, name)
        if t is SuperProxy:
            return self.super_attr(obj, name)
        if name == "as_long" and isinstance(obj, z3.BitVecRef) and not z3.is_bv_value(obj) and _is_ground_over_int_views(self, obj):
            return lambda: mk_exact(obj)
        if t is SymBytesOfInt:
            return getattr(obj, name)
        if t is InterpFunction or t is BoundMethod:
            return getattr(obj, name)
        if isinstance(obj, type):
            if loader.is_repo_class(obj):
                raw, k = mro_lookup(obj, name)
                if raw is _MISSING:
                    return getattr(obj, name)
                if isinstance(raw, staticmethod):
                    return raw.__func__
                if isinstance(raw, classmethod):
                    return BoundMethod(raw.__func__, obj)
                return getattr(obj, name) if not isinstance(raw, types.FunctionType) else raw
            return getattr(obj, name)
        if loader.is_repo_class(t):
            ga, k = mro_lookup(t, "__getattribute__")
            if k is not object and isinstance(ga, types.FunctionType) and loader.is_repo_function(ga):
                return self.call(ga, [obj, name], {})
            if k is not object and not isinstance(ga, types.FunctionType) and hasattr(ga, "__wrapped__") and not name.startswith("__"):
                # a wrapped __getattribute__ (functools.lru_cache on Config): instances are concrete,
                # so the real lookup is executed natively; methods still come from the AST
                raw, _ = mro_lookup(t, name)
                if raw is _MISSING or not isinstance(raw, (types.FunctionType, property, staticmethod, classmethod)) and type(raw).__name__ != "cached_property":
                    return getattr(obj, name)
            return self.generic_getattr(obj, name)
        return getattr(obj, name)

    def generic_getattr(self, obj, name):
        t = type(obj)
        raw, k = mro_lookup(t, name)
        if raw is _MISSING:
            try:
                return object.__getattribute__(obj, name)
            except AttributeError:
                ga, _ = mro_lookup(t, "__getattr__")
                if ga is not _MISSING and isinstance(ga, types.FunctionType):
                    return self.call(ga, [obj, name], {})
                raise
        if isinstance(raw, property):
            if raw.fget is None:
                raise AttributeError(name)
            return self.call(raw.fget, [obj], {})
        if isinstance(raw, types.FunctionType):
            return BoundMethod(raw, obj)
        if isinstance(raw, InterpFunction):
            return BoundMethod(raw, obj)
        if isinstance(raw, staticmethod):
            return raw.__func__
        if isinstance(raw, classmethod):
            return BoundMethod(raw.__func__, t)
        if type(raw).__name__ == "cached_property":
            d = obj.__dict__
            if name in d:
                return d[name]
            v = self.call(raw.func, [obj], {})
            d[name] = v
            return v
        return object.__getattribute__(obj, name)

    def super_attr(self, sp, name):
        obj = sp.obj
        start = obj if isinstance(obj, type) else type(obj)
        if isinstance(obj, type) and sp.cls not in start.__mro__ and sp.cls in type(obj).__mro__:
            # super() inside a metaclass method: obj is a class, an instance of the metaclass
            start = type(obj)
        mro = start.__mro__
        idx = mro.index(sp.cls) + 1
        for k in mro[idx:]:
            if name in k.__dict__:
                raw = k.__dict__[name]
                if isinstance(raw, staticmethod):
                    f = raw.__func__
                    if name == "__new__":
                        return f
                    return f
                if isinstance(raw, classmethod):
                    return BoundMethod(raw.__func__, start)
                if isinstance(raw, types.FunctionType):
                    return BoundMethod(raw, obj)
                if isinstance(raw, property):
                    return self.call(raw.fget, [obj], {})
                # builtin slot wrappers etc.
                if name == "__new__":
                    return raw
                return raw.__get__(obj, start)
        raise AttributeError(name)

    def set_attr(self, obj, name, value):
        t = type(obj)
        if loader.is_repo_class(t):
            sa, k = mro_lookup(t, "__setattr__")
            if k is not object and isinstance(sa, types.FunctionType):
                return self.call(sa, [obj, name, value], {})
            raw, _ = mro_lookup(t, name)
            if isinstance(raw, property):
                if raw.fset is None:
                    raise AttributeError(f"can't set attribute '{name}'")
                return self.call(raw.fset, [obj, value], {})
        setattr(obj, name, value)

    # ------------------------------------------------------------------ subscripts
    def get_item(self, obj, key):
        t = type(obj)
        if loader.is_repo_class(t):
            f, _ = mro_lookup(t, "__getitem__")
            if f is _MISSING:
                raise TypeError(f"'{t.__name__}' object is not subscriptable")
            return self.call(f, [obj, key], {})
        h = self.externals.get(("getitem", t))
        if h is not None:
            return h(self, obj, key)
        if getattr(t, "accepts_symbolic_keys", False):
            return obj[key]
        if is_sym(key) or (isinstance(key, slice) and contains_sym((key.start, key.stop, key.step))):
            if isinstance(obj, dict) and all(isinstance(k, int) for k in obj):
                # f_mod[w1.size + 8] etc: fork over the keys
                for k in obj:
                    if self.truth(self.cmp_int(ast.Eq, key, k)):
                        return obj[k]
                raise KeyError(key)
            raise Unmodelled(f"symbolic index into {t.__name__}")
        return obj[key]

    def set_item(self, obj, key, value):
        t = type(obj)
        if loader.is_repo_class(t):
            f, _ = mro_lookup(t, "__setitem__")
            if f is _MISSING:
                raise TypeError(f"'{t.__name__}' object does not support item assignment")
            return self.call(f, [obj, key, value], {})
        h = self.externals.get(("setitem", t))
        if h is not None:
            return h(self, obj, key, value)
        if is_sym(key) and not getattr(t, "accepts_symbolic_keys", False):
            raise Unmodelled(f"symbolic key stored into {t.__name__}")
        obj[key] = value

    def del_item(self, obj, key):
        t = type(obj)
        if loader.is_repo_class(t):
            f, _ = mro_lookup(t, "__delitem__")
            return self.call(f, [obj, key], {})
        h = self.externals.get(("delitem", t))
        if h is not None:
            return h(self, obj, key)
        del obj[key]

    # ------------------------------------------------------------------ calls
    def call(self, f, args, kwargs):
        tf = type(f)
        if tf is BoundMethod:
            return self.call(f.func, [f.self_obj] + list(args), kwargs)
        if tf is InterpFunction:
            return self.exec_function(f.node, f.sf, f.env, None, f.defaults, f.kwdefaults, args, kwargs, f.defining_class, f.__qualname__)
        if tf is SymMethod:
            return f(*args, **kwargs)
        if tf is types.MethodType:
            return self.call(f.__func__, [f.__self__] + list(args), kwargs)
        key = self.callable_key(f)
        c = self.contracts.get(key)
        if c is not None:
            return c(self, args, kwargs)
        ext = self.externals.get(f) if self._hashable(f) else None
        if ext is None and key is not None:
            ext = self.externals.get(key)
        if ext is not None:
            return ext(self, *args, **kwargs)
        if tf is types.FunctionType:
            w = getattr(f, "__wrapped__", None)
            if loader.is_repo_function(f):
                return self.call_repo_function(f, args, kwargs)
            if w is not None and isinstance(w, types.FunctionType) and loader.is_repo_function(w):
                return self.call_repo_function(w, args, kwargs)
        if isinstance(f, type):
            if self.needs_modelled_construction(f):
                return self.instantiate(f, args, kwargs)
        w = getattr(f, "__wrapped__", None)
        if w is not None and isinstance(w, types.FunctionType) and loader.is_repo_function(w):
            # functools.lru_cache / cache: the wrapped body runs through the interpreter, and a second call with the same
            # (hashable) arguments on this path returns the very same object, as the real wrapper does (it matters when
            # the result is mutable); other functools.wraps-style wrappers are taken as transparent
            if hasattr(f, "cache_info") and hasattr(f, "cache_clear"):
                try:
                    mk = (id(f), tuple(args), tuple(sorted(kwargs.items())))
                    hash(mk)
                except TypeError:
                    mk = None
                memo = self.__dict__.setdefault("_lru_memo", {})
                if mk is not None and mk in memo:
                    return memo[mk]
                r = self.call_repo_function(w, args, kwargs)
                if mk is not None:
                    memo[mk] = r
                return r
            return self.call_repo_function(w, args, kwargs)
        if isinstance(f, z3.FuncDeclRef):
            return self.call_funcdecl(f, args)
        if not callable(f):
            raise TypeError(f"'{type(f).__name__}' object is not callable")
        tcall = type(f)
        if loader.is_repo_class(tcall):
            m, _ = mro_lookup(tcall, "__call__")
            if m is not _MISSING:
                return self.call(m, [f] + list(args), kwargs)
        return self.native_call(f, args, kwargs)

    @staticmethod
    def _hashable(f):
        try:
            hash(f)
            return True
        except BaseException:
            return False

    @staticmethod
    def callable_key(f):
        mod = getattr(f, "__module__", None)
        q = getattr(f, "__qualname__", None)
        if isinstance(mod, str) and isinstance(q, str):
            return f"{mod}:{q}"
        return None

    def native_call(self, f, args, kwargs):
        if contains_sym(args) or contains_sym(tuple(kwargs.values())):
            if not native_ok_with_sym(f):
                raise Unmodelled(
                    f"native call {getattr(f, '__module__', '?')}.{getattr(f, '__qualname__', repr(f))} with symbolic arguments"
                )
        return f(*args, **kwargs)

    def call_funcdecl(self, f, args):
        out = []
        for k, a in enumerate(args):
            dom = f.domain(k)
            if is_sym(a):
                if z3.is_bv_sort(dom):
                    a = to_bv(a, dom.size())
                elif dom == z3.BoolSort():
                    a = a.b
                else:
                    a = iexpr(a)
            elif isinstance(a, z3.BitVecRef) and z3.is_bv_sort(dom) and a.size() != dom.size():
                self.ctx.oblige("sort/funcdecl-domain", z3.BoolVal(False), info={"f": f.name(), "arg": a.size(), "dom": dom.size()})
            out.append(a)
        return f(*out)

    def needs_modelled_construction(self, cls):
        if not loader.is_repo_class(cls):
            return False
        for name in ("__new__", "__init__", "__post_init__"):
            raw, k = mro_lookup(cls, name)
            if raw is _MISSING:
                continue
            fn = raw.__func__ if isinstance(raw, staticmethod) else raw
            if isinstance(fn, types.FunctionType) and loader.is_repo_function(fn):
                return True
        return False

    def instantiate(self, cls, args, kwargs):
        key = f"{cls.__module__}:{cls.__qualname__}"
        c = self.contracts.get(key)
        if c is not None:
            return c(self, args, kwargs)
        meta = type(cls)
        if meta is not type and loader.is_repo_class(meta):
            m, _ = mro_lookup(meta, "__call__")
            if m is not _MISSING and isinstance(m, types.FunctionType):
                return self.call(m, [cls] + list(args), kwargs)
        raw, k = mro_lookup(cls, "__new__")
        fn = raw.__func__ if isinstance(raw, staticmethod) else raw
        if isinstance(fn, types.FunctionType) and loader.is_repo_function(fn):
            obj = self.call(fn, [cls] + list(args), kwargs)
        elif k is object:
            obj = object.__new__(cls)
        else:
            try:
                obj = fn(cls, *args, **kwargs)
            except TypeError:
                obj = fn(cls)
        if isinstance(obj, cls):
            raw, k = mro_lookup(type(obj), "__init__")
            if k is not object:
                if isinstance(raw, types.FunctionType) and loader.is_repo_function(raw):
                    self.call(raw, [obj] + list(args), kwargs)
                else:
                    # dataclass-generated or builtin __init__: stores fields only
                    if getattr(raw, "__code__", None) is not None and raw.__code__.co_filename.startswith("<"):
                        self.dataclass_init(obj, raw, args, kwargs)
                    else:
                        raw(obj, *args, **kwargs)
        return obj

    def dataclass_init(self, obj, raw, args, kwargs):
        raw(obj, *args, **kwargs)

    def call_repo_function(self, fn, args, kwargs):
        sf, node = loader.func_node(fn)
        parent = None
        if fn.__closure__:
            cells = {}
            for name, cell in zip(fn.__code__.co_freevars, fn.__closure__):
                try:
                    cells[name] = cell.cell_contents
                except ValueError:
                    pass
            parent = Env(cells, None, fn.__globals__)
        defining = None
        qual = fn.__qualname__
        if "." in qual and "<locals>" not in qual.rsplit(".", 1)[0].split(".")[-1:]:
            o = sys.modules.get(fn.__module__)
            try:
                for part in qual.split(".")[:-1]:
                    o = getattr(o, part)
                defining = o if isinstance(o, type) else None
            except AttributeError:
                defining = None
        if "__class__" in (fn.__code__.co_freevars or ()) and fn.__closure__:
            idx = fn.__code__.co_freevars.index("__class__")
            try:
                defining = fn.__closure__[idx].cell_contents
            except ValueError:
                pass
        self.inlined.add(f"{fn.__module__}:{qual}")
        return self.exec_function(
            node, sf, parent, fn.__globals__, fn.__defaults__ or (), fn.__kwdefaults__ or {}, args, kwargs, defining, f"{fn.__module__}:{qual}"
        )

    # ------------------------------------------------------------------ function execution
    def bind_args(self, a: ast.arguments, defaults, kwdefaults, args, kwargs, qual):
        vars_ = {}
        pos = list(a.posonlyargs) + list(a.args)
        args = list(args)
        kwargs = dict(kwargs)
        n = len(pos)
        if len(args) > n and a.vararg is None:
            raise TypeError(f"{qual}() takes {n} positional arguments but {len(args)} were given")
        for p, v in zip(pos, args):
            vars_[p.arg] = v
        extra = args[n:]
        if a.vararg is not None:
            vars_[a.vararg.arg] = tuple(extra)
        nd = len(defaults)
        for k, p in enumerate(pos):
            if p.arg in vars_:
                if p.arg in kwargs:
                    raise TypeError(f"{qual}() got multiple values for argument '{p.arg}'")
                continue
            if p.arg in kwargs and p not in a.posonlyargs:
                vars_[p.arg] = kwargs.pop(p.arg)
            elif k >= n - nd:
                vars_[p.arg] = defaults[k - (n - nd)]
            else:
                raise TypeError(f"{qual}() missing required argument '{p.arg}'")
        for p in a.kwonlyargs:
            if p.arg in kwargs:
                vars_[p.arg] = kwargs.pop(p.arg)
            elif p.arg in kwdefaults:
                vars_[p.arg] = kwdefaults[p.arg]
            else:
                raise TypeError(f"{qual}() missing required keyword-only argument '{p.arg}'")
        if a.kwarg is not None:
            vars_[a.kwarg.arg] = kwargs
        elif kwargs:
            raise TypeError(f"{qual}() got an unexpected keyword argument '{next(iter(kwargs))}'")
        return vars_

    def exec_function(self, node, sf, parent_env, globals_, defaults, kwdefaults, args, kwargs, defining_class, qual):
        if globals_ is None:
            globals_ = parent_env.globals
        vars_ = self.bind_args(node.args, defaults, kwdefaults, args, kwargs, qual)
        env = Env(vars_, parent_env, globals_)
        is_gen = _is_generator(node)
        first = args[0] if args else None
        frame = Frame(qual, defining_class, first, is_gen)
        self.frames.append(frame)
        self.call_depth += 1
        if self.call_depth > 200:
            raise EngineError("interpreter recursion too deep")
        try:
            if isinstance(node, ast.Lambda):
                return self.eval(node.body, env)
            if is_gen:
                value, exc = None, None
                try:
                    self.exec_block(node.body, env)
                except ReturnSig as r:
                    value = r.value
                except _ENGINE:
                    raise
                except BaseException as e:  # exception surfaces when the consumer reaches it
                    exc = e
                return EagerGen(frame.yields, value, exc)
            try:
                self.exec_block(node.body, env)
            except ReturnSig as r:
                return r.value
            return None
        finally:
            self.call_depth -= 1
            self.frames.pop()

    def exec_fragment(self, stmts, env, qual="<fragment>", is_gen=True):
        """run a list of statements taken from inside a function; returns
        ('fallthrough'|'continue'|'break'|'return'|'raise', payload, yields)"""
        frame = Frame(qual, None, env.lookup("self") if "self" in env.vars else None, is_gen)
        self.frames.append(frame)
        try:
            try:
                self.exec_block(stmts, env)
                return "fallthrough", None, frame.yields
            except ContinueSig:
                return "continue", None, frame.yields
            except BreakSig:
                return "break", None, frame.yields
            except ReturnSig as r:
                return "return", r.value, frame.yields
            except _ENGINE:
                raise
            except BaseException as e:
                return "raise", e, frame.yields
        finally:
            self.frames.pop()

    # ------------------------------------------------------------------ statements
    def exec_block(self, stmts, env):
        hook = self.step_hook
        for s in stmts:
            if hook is not None:
                # interleaving point of the thread-modular harnesses: another thread's atomic
                # step may run here (nested), before this statement
                hook(s, env, self.frames[-1].qual if self.frames else "")
            self.exec_stmt(s, env)

    def exec_stmt(self, s, env):
        m = getattr(self, "s_" + type(s).__name__, None)
        if m is None:
            raise Unmodelled(f"statement {type(s).__name__} at line {s.lineno}")
        return m(s, env)

    def s_Expr(self, s, env):
        self.eval(s.value, env)

    def s_Pass(self, s, env):
        pass

    def s_Return(self, s, env):
        raise ReturnSig(self.eval(s.value, env) if s.value is not None else None)

    def s_Break(self, s, env):
        raise BreakSig()

    def s_Continue(self, s, env):
        raise ContinueSig()

    def s_Global(self, s, env):
        env.global_names.update(s.names)

    def s_Nonlocal(self, s, env):
        env.nonlocal_names.update(s.names)

    def s_Import(self, s, env):
        for a in s.names:
            mod = __import__(a.name)
            if a.asname:
                for part in a.name.split(".")[1:]:
                    mod = getattr(mod, part)
                env.store(a.asname, mod)
            else:
                env.store(a.name.split(".")[0], mod)

    def s_ImportFrom(self, s, env):
        import importlib

        pkg = env.globals.get("__package__")
        mod = importlib.import_module("." * s.level + (s.module or ""), pkg if s.level else None)
        for a in s.names:
            env.store(a.asname or a.name, getattr(mod, a.name))

    def s_Assign(self, s, env):
        v = self.eval(s.value, env)
        for t in s.targets:
            self.assign(t, v, env)

    def s_AnnAssign(self, s, env):
        if s.value is not None:
            self.assign(s.target, self.eval(s.value, env), env)

    def s_AugAssign(self, s, env):
        t = s.target
        op = type(s.op)
        if isinstance(t, ast.Name):
            cur = env.lookup(t.id)
            env.store(t.id, self.binop(op, cur, self.eval(s.value, env), inplace=True))
        elif isinstance(t, ast.Attribute):
            obj = self.eval(t.value, env)
            cur = self.get_attr(obj, t.attr)
            self.set_attr(obj, t.attr, self.binop(op, cur, self.eval(s.value, env), inplace=True))
        elif isinstance(t, ast.Subscript):
            obj = self.eval(t.value, env)
            key = self.eval_slice(t.slice, env)
            cur = self.get_item(obj, key)
            self.set_item(obj, key, self.binop(op, cur, self.eval(s.value, env), inplace=True))
        else:
            raise Unmodelled("augassign target")

    def s_Delete(self, s, env):
        for t in s.targets:
            if isinstance(t, ast.Name):
                env.delete(t.id)
            elif isinstance(t, ast.Subscript):
                self.del_item(self.eval(t.value, env), self.eval_slice(t.slice, env))
            elif isinstance(t, ast.Attribute):
                delattr(self.eval(t.value, env), t.attr)
            else:
                raise Unmodelled("del target")

    def assign(self, t, v, env):
        if isinstance(t, ast.Name):
            env.store(t.id, v)
        elif isinstance(t, ast.Attribute):
            self.set_attr(self.eval(t.value, env), self.mangle(t.attr), v)
        elif isinstance(t, ast.Subscript):
            self.set_item(self.eval(t.value, env), self.eval_slice(t.slice, env), v)
        elif isinstance(t, (ast.Tuple, ast.List)):
            items = list(self.iterate(v))
            star = [k for k, e in enumerate(t.elts) if isinstance(e, ast.Starred)]
            if star:
                k = star[0]
                after = len(t.elts) - k - 1
                if len(items) < len(t.elts) - 1:
                    raise ValueError("not enough values to unpack")
                for e, x in zip(t.elts[:k], items[:k]):
                    self.assign(e, x, env)
                self.assign(t.elts[k].value, items[k : len(items) - after], env)
                for e, x in zip(t.elts[k + 1 :], items[len(items) - after :]):
                    self.assign(e, x, env)
            else:
                if len(items) != len(t.elts):
                    raise ValueError(
                        f"{'too many' if len(items) > len(t.elts) else 'not enough'} values to unpack (expected {len(t.elts)})"
                    )
                for e, x in zip(t.elts, items):
                    self.assign(e, x, env)
        elif isinstance(t, ast.Starred):
            self.assign(t.value, v, env)
        else:
            raise Unmodelled(f"assignment target {type(t).__name__}")

    def s_If(self, s, env):
        if self.truth(self.eval(s.test, env)):
            self.exec_block(s.body, env)
        else:
            self.exec_block(s.orelse, env)

    def s_Assert(self, s, env):
        if not self.truth(self.eval(s.test, env)):
            msg = self.eval(s.msg, env) if s.msg is not None else None
            raise AssertionError(msg) if msg is not None else AssertionError()

    def s_Raise(self, s, env):
        if s.exc is None:
            cur = getattr(self, "_handling", None)
            if cur is None:
                raise RuntimeError("No active exception to reraise")
            raise cur
        exc = self.eval(s.exc, env)
        if isinstance(exc, type):
            exc = self.call(exc, [], {})
        if s.cause is not None:
            cause = self.eval(s.cause, env)
            raise exc from cause
        raise exc

    def s_Try(self, s, env):
        try:
            try:
                self.exec_block(s.body, env)
            except _ENGINE:
                raise
            except BaseException as e:
                for h in s.handlers:
                    if h.type is None:
                        match = True
                    else:
                        et = self.eval(h.type, env)
                        match = isinstance(e, et)
                    if match:
                        if h.name:
                            env.store(h.name, e)
                        prev = getattr(self, "_handling", None)
                        self._handling = e
                        try:
                            self.exec_block(h.body, env)
                        finally:
                            self._handling = prev
                        break
                else:
                    raise
            else:
                self.exec_block(s.orelse, env)
        finally:
            if s.finalbody:
                et = sys.exc_info()[0]
                if et is None or not issubclass(et, (EngineError, PathEnd)):
                    self.exec_block(s.finalbody, env)

    s_TryStar = None

    def s_With(self, s, env):
        def run(items):
            if not items:
                return self.exec_block(s.body, env)
            item = items[0]
            mgr = self.eval(item.context_expr, env)
            enter = self.get_attr(mgr, "__enter__")
            exit_ = self.get_attr(mgr, "__exit__")
            v = self.call(enter, [], {})
            if item.optional_vars is not None:
                self.assign(item.optional_vars, v, env)
            try:
                run(items[1:])
            except (EngineError, PathEnd):
                raise
            except _Signal:
                self.call(exit_, [None, None, None], {})
                raise
            except BaseException as e:
                if not self.truth(self.call(exit_, [type(e), e, e.__traceback__], {})):
                    raise
            else:
                self.call(exit_, [None, None, None], {})

        run(list(s.items))

    def s_FunctionDef(self, s, env):
        defaults = tuple(self.eval(d, env) for d in s.args.defaults)
        kwdefaults = {
            a.arg: self.eval(d, env) for a, d in zip(s.args.kwonlyargs, s.args.kw_defaults) if d is not None
        }
        sf = getattr(s, "_sf", None)
        fr = self.frames[-1] if self.frames else None
        qual = (fr.qual + ".<locals>." if fr else "") + s.name
        f = InterpFunction(self, s, env, sf, defaults, kwdefaults, fr.defining_class if fr else None, qual)
        v = f
        for d in reversed(s.decorator_list):
            dec = self.eval(d, env)
            v = self.call(dec, [v], {})
        env.store(s.name, v)

    def s_While(self, s, env):
        fr = self.frames[-1]
        ordinal = fr.loop_ordinal
        fr.loop_ordinal += 1
        spec = self.loop_specs.get((fr.qual, ordinal)) or self.loop_specs.get((fr.qual, s.lineno))
        if spec is not None:
            return spec(self, s, env)
        n = 0
        limit = self.opts.get("unroll_limit", 4096)
        while True:
            if not self.truth(self.eval(s.test, env)):
                self.exec_block(s.orelse, env)
                return
            n += 1
            if n > limit:
                raise Unmodelled(f"loop at line {s.lineno} exceeded unroll limit without an invariant")
            try:
                self.exec_block(s.body, env)
            except BreakSig:
                return
            except ContinueSig:
                continue

    def s_For(self, s, env):
        fr = self.frames[-1]
        ordinal = fr.loop_ordinal
        fr.loop_ordinal += 1
        spec = self.loop_specs.get((fr.qual, ordinal))
        if spec is not None:
            return spec(self, s, env)
        it = self.eval(s.iter, env)
        n = 0
        limit = self.opts.get("unroll_limit", 4096)
        for x in self.iterate(it):
            n += 1
            if n > limit:
                raise Unmodelled(f"for loop at line {s.lineno} exceeded unroll limit")
            self.assign(s.target, x, env)
            try:
                self.exec_block(s.body, env)
            except BreakSig:
                return
            except ContinueSig:
                continue
        self.exec_block(s.orelse, env)

    def iterate(self, it):
        t = type(it)
        if t is range or t is list or t is tuple or t is EagerGen:
            return iter(it)
        if loader.is_repo_class(t):
            f, _ = mro_lookup(t, "__iter__")
            if f is not _MISSING:
                return iter(self.call(f, [it], {}))
            g, _ = mro_lookup(t, "__getitem__")
            if g is not _MISSING:
                raise Unmodelled("iteration through __getitem__")
            raise TypeError(f"'{t.__name__}' object is not iterable")
        if is_sym(it):
            raise TypeError("int object is not iterable")
        h = self.externals.get(("iter", t))
        if h is not None:
            return h(self, it)
        return iter(it)

    # ------------------------------------------------------------------ match
    def s_Match(self, s, env):
        subject = self.eval(s.subject, env)
        for case in s.cases:
            binds = {}
            if self.match_pattern(case.pattern, subject, binds, env):
                for k, v in binds.items():
                    env.store(k, v)
                if case.guard is not None and not self.truth(self.eval(case.guard, env)):
                    continue
                self.exec_block(case.body, env)
                return

    def match_pattern(self, p, v, binds, env):
        tp = type(p)
        if tp is ast.MatchValue:
            return self.truth(self.compare(ast.Eq, v, self.eval(p.value, env)))
        if tp is ast.MatchSingleton:
            return v is p.value
        if tp is ast.MatchAs:
            if p.pattern is not None and not self.match_pattern(p.pattern, v, binds, env):
                return False
            if p.name is not None:
                binds[p.name] = v
            return True
        if tp is ast.MatchOr:
            for q in p.patterns:
                b2 = {}
                if self.match_pattern(q, v, b2, env):
                    binds.update(b2)
                    return True
            return False
        if tp is ast.MatchSequence:
            if isinstance(v, (str, bytes, bytearray)) or not isinstance(v, (list, tuple)):
                return False
            pats = p.patterns
            star = [k for k, q in enumerate(pats) if isinstance(q, ast.MatchStar)]
            if star:
                k = star[0]
                after = len(pats) - k - 1
                if len(v) < len(pats) - 1:
                    return False
                for q, x in zip(pats[:k], v[:k]):
                    if not self.match_pattern(q, x, binds, env):
                        return False
                if pats[k].name:
                    binds[pats[k].name] = list(v[k : len(v) - after])
                for q, x in zip(pats[k + 1 :], v[len(v) - after :]):
                    if not self.match_pattern(q, x, binds, env):
                        return False
                return True
            if len(v) != len(pats):
                return False
            return all(self.match_pattern(q, x, binds, env) for q, x in zip(pats, v))
        if tp is ast.MatchClass:
            cls = self.eval(p.cls, env)
            if not self.isinstance_(v, cls):
                return False
            if p.patterns:
                if cls in (bool, int, str, bytes, float, list, tuple, dict, set, frozenset, bytearray) and len(p.patterns) == 1:
                    if not self.match_pattern(p.patterns[0], v, binds, env):
                        return False
                else:
                    names = getattr(cls, "__match_args__", ())
                    if len(p.patterns) > len(names):
                        raise TypeError("too many positional sub-patterns")
                    for q, name in zip(p.patterns, names):
                        try:
                            x = self.get_attr(v, name)
                        except AttributeError:
                            return False
                        if not self.match_pattern(q, x, binds, env):
                            return False
            for name, q in zip(p.kwd_attrs, p.kwd_patterns):
                try:
                    x = self.get_attr(v, name)
                except AttributeError:
                    return False
                if not self.match_pattern(q, x, binds, env):
                    return False
            return True
        if tp is ast.MatchMapping:
            if not isinstance(v, dict):
                return False
            for k, q in zip(p.keys, p.patterns):
                kk = self.eval(k, env)
                if kk not in v:
                    return False
                if not self.match_pattern(q, v[kk], binds, env):
                    return False
            if p.rest:
                binds[p.rest] = {k: x for k, x in v.items() if k not in [self.eval(k2, env) for k2 in p.keys]}
            return True
        raise Unmodelled(f"pattern {tp.__name__}")

    def isinstance_(self, v, cls):
        t = type(v)
        g = getattr(t, "ghost_of", None)
        if g is not None and not isinstance(cls, tuple):
            return issubclass(g, cls) or isinstance(v, cls)
        if t is SymInt:
            return isinstance(0, cls)
        if t is SymBool:
            return isinstance(True, cls)
        return isinstance(v, cls)

    # ------------------------------------------------------------------ expressions
    def eval(self, e, env):
        m = getattr(self, "e_" + type(e).__name__, None)
        if m is None:
            raise Unmodelled(f"expression {type(e).__name__} at line {getattr(e, 'lineno', '?')}")
        return m(e, env)

    def e_Constant(self, e, env):
        return e.value

    def e_Name(self, e, env):
        return env.lookup(e.id)

    def e_NamedExpr(self, e, env):
        v = self.eval(e.value, env)
        env.store(e.target.id, v)
        return v

    def mangle(self, name):
        """private-name mangling of identifiers inside a class body (done by the compiler in
        CPython, so ast.parse shows the unmangled name)"""
        if name.startswith("__") and not name.endswith("__"):
            for fr in reversed(self.frames):
                dc = fr.defining_class
                if dc is not None:
                    return "_" + dc.__name__.lstrip("_") + name
                if "<locals>" not in fr.qual:
                    break
        return name

    def e_Attribute(self, e, env):
        return self.get_attr(self.eval(e.value, env), self.mangle(e.attr))

    def e_Subscript(self, e, env):
        return self.get_item(self.eval(e.value, env), self.eval_slice(e.slice, env))

    def eval_slice(self, sl, env):
        if isinstance(sl, ast.Slice):
            return slice(
                self.eval(sl.lower, env) if sl.lower is not None else None,
                self.eval(sl.upper, env) if sl.upper is not None else None,
                self.eval(sl.step, env) if sl.step is not None else None,
            )
        return self.eval(sl, env)

    def e_Slice(self, e, env):
        return self.eval_slice(e, env)

    def e_Tuple(self, e, env):
        return tuple(self.eval_seq(e.elts, env))

    def e_List(self, e, env):
        return list(self.eval_seq(e.elts, env))

    def e_Set(self, e, env):
        return set(self.eval_seq(e.elts, env))

    def eval_seq(self, elts, env):
        out = []
        for x in elts:
            if isinstance(x, ast.Starred):
                out.extend(self.iterate(self.eval(x.value, env)))
            else:
                out.append(self.eval(x, env))
        return out

    def e_Dict(self, e, env):
        d = {}
        for k, v in zip(e.keys, e.values):
            if k is None:
                d.update(self.eval(v, env))
            else:
                d[self.eval(k, env)] = self.eval(v, env)
        return d

    def e_BoolOp(self, e, env):
        is_and = isinstance(e.op, ast.And)
        v = None
        for k, x in enumerate(e.values):
            v = self.eval(x, env)
            if k == len(e.values) - 1:
                return v
            t = self.truth(v)
            if is_and and not t:
                return v if type(v) is not SymBool and type(v) is not SymInt else (False if type(v) is SymBool else 0)
            if not is_and and t:
                return v if type(v) is not SymBool else True
        return v

    def e_UnaryOp(self, e, env):
        return self.unary(e.op, self.eval(e.operand, env))

    def e_BinOp(self, e, env):
        a = self.eval(e.left, env)
        b = self.eval(e.right, env)
        return self.binop(type(e.op), a, b)

    def e_Compare(self, e, env):
        left = self.eval(e.left, env)
        result = True
        for k, (op, r) in enumerate(zip(e.ops, e.comparators)):
            right = self.eval(r, env)
            result = self.compare(type(op), left, right)
            if k < len(e.ops) - 1:
                if not self.truth(result):
                    return False if is_sym(result) else result
            left = right
        return result

    def e_IfExp(self, e, env):
        if self.truth(self.eval(e.test, env)):
            return self.eval(e.body, env)
        return self.eval(e.orelse, env)

    def e_Lambda(self, e, env):
        defaults = tuple(self.eval(d, env) for d in e.args.defaults)
        kwdefaults = {a.arg: self.eval(d, env) for a, d in zip(e.args.kwonlyargs, e.args.kw_defaults) if d is not None}
        fr = self.frames[-1] if self.frames else None
        return InterpFunction(self, e, env, None, defaults, kwdefaults, fr.defining_class if fr else None, (fr.qual if fr else "") + ".<locals>.<lambda>")

    def e_JoinedStr(self, e, env):
        parts = []
        for v in e.values:
            if isinstance(v, ast.Constant):
                parts.append(str(v.value))
            else:
                parts.append(self.e_FormattedValue(v, env))
        return "".join(parts)

    def e_FormattedValue(self, e, env):
        # message rendering is not modelled (DESIGN 2.3): sub-expressions are evaluated, the
        # text is produced natively where possible and is opaque otherwise
        # an exception raised by the sub-expression itself (attribute of None, missing key, ...) is the f-string's exception in
        # python and propagates; only what the engine cannot model is rendered as opaque text
        try:
            v = self.eval(e.value, env)
        except _Signal:
            raise
        except EngineError:
            return "<opaque>"
        spec = self.eval(e.format_spec, env) if e.format_spec is not None else ""
        try:
            if is_sym(v):
                return "<sym>"
            if loader.is_repo_class(type(v)):
                return f"<{type(v).__name__}>"
            if e.conversion == ord("r"):
                v = repr(v)
            elif e.conversion == ord("s"):
                v = str(v)
            elif e.conversion == ord("a"):
                v = ascii(v)
            return format(v, spec)
        except _ENGINE:
            return "<opaque>"
        except Exception:
            return "<opaque>"

    def e_Starred(self, e, env):
        raise Unmodelled("starred expression outside call/sequence")

    def e_Call(self, e, env):
        fn = e.func
        # zero-argument super()
        if isinstance(fn, ast.Name) and fn.id == "super" and not e.args and not e.keywords:
            fr = self.frames[-1]
            if fr.defining_class is None:
                raise Unmodelled("super() outside a class-bound function")
            return SuperProxy(fr.defining_class, fr.first_arg)
        f = self.eval(fn, env)
        args = []
        for a in e.args:
            if isinstance(a, ast.Starred):
                args.extend(self.iterate(self.eval(a.value, env)))
            else:
                args.append(self.eval(a, env))
        kwargs = {}
        for k in e.keywords:
            if k.arg is None:
                kwargs.update(self.eval(k.value, env))
            else:
                kwargs[k.arg] = self.eval(k.value, env)
        return self.call(f, args, kwargs)

    def e_Yield(self, e, env):
        fr = self.frames[-1]
        if fr.yields is None:
            raise Unmodelled("yield outside generator frame")
        fr.yields.append(self.eval(e.value, env) if e.value is not None else None)
        return None

    def e_YieldFrom(self, e, env):
        fr = self.frames[-1]
        if fr.yields is None:
            raise Unmodelled("yield from outside generator frame")
        it = self.eval(e.value, env)
        g = self.iterate(it)
        for x in g:
            fr.yields.append(x)
        return getattr(it, "value", None)

    def comp(self, generators, env, emit):
        def rec(k, env2):
            if k == len(generators):
                emit(env2)
                return
            g = generators[k]
            it = self.eval(g.iter, env2)
            for x in self.iterate(it):
                self.assign(g.target, x, env2)
                if all(self.truth(self.eval(c, env2)) for c in g.ifs):
                    rec(k + 1, env2)

        inner = Env({}, env, env.globals)
        rec(0, inner)

    def e_ListComp(self, e, env):
        out = []
        self.comp(e.generators, env, lambda en: out.append(self.eval(e.elt, en)))
        return out

    def e_SetComp(self, e, env):
        out = set()
        self.comp(e.generators, env, lambda en: out.add(self.eval(e.elt, en)))
        return out

    def e_DictComp(self, e, env):
        out = {}

        def emit(en):
            k = self.eval(e.key, en)
            out[k] = self.eval(e.value, en)

        self.comp(e.generators, env, emit)
        return out

    def e_GeneratorExp(self, e, env):
        out = []
        self.comp(e.generators, env, lambda en: out.append(self.eval(e.elt, en)))
        return EagerGen(out)


def _is_generator(node):
    if isinstance(node, ast.Lambda):
        return False

    def walk(n):
        for c in ast.iter_child_nodes(n):
            if isinstance(c, (ast.FunctionDef, ast.AsyncFunctionDef, ast.Lambda, ast.ClassDef)):
                continue
            if isinstance(c, (ast.Yield, ast.YieldFrom)):
                return True
            if walk(c):
                return True
        return False

    return walk(node)


# --------------------------------------------------------------------------------------
# methods on symbolic ints


class SymMethod:
    def __init__(self, interp, obj, name):
        self.interp = interp
        self.obj = obj
        self.name = name

    def __call__(self, *args, **kwargs):
        o, n = self.obj, self.name
        if n == "bit_length":
            e = iexpr(o)
            r = SymInt(BITLEN(e))
            return r
        if n == "to_bytes":
            length = kwargs.get("length", args[0] if args else 1)
            order = kwargs.get("byteorder", args[1] if len(args) > 1 else "big")
            if is_sym(length) or kwargs.get("signed"):
                raise Unmodelled("int.to_bytes with symbolic length / signed")
            it = self.interp
            if it.truth(it.cmp_int(ast.Lt, o, 0)):
                raise OverflowError("can't convert negative int to unsigned")
            if it.truth(it.cmp_int(ast.GtE, o, 1 << (8 * length))):
                raise OverflowError("int too big to convert")
            return SymBytesOfInt(o, length, order)
        raise Unmodelled(f"int.{n} on a symbolic int")


class SymBytesOfInt:
    """bytes object produced by int.to_bytes on a symbolic int (indexing by concrete position)"""

    def __init__(self, x, length, order):
        self.x = x
        self.length = length
        self.order = order

    def __len__(self):
        return self.length

    def byte(self, k):
        if is_sym(k):
            raise Unmodelled("symbolic index into int.to_bytes result")
        if k < 0:
            k += self.length
        if not 0 <= k < self.length:
            raise IndexError("index out of range")
        pos = (self.length - 1 - k) if self.order == "big" else k
        e = (iexpr(self.x) / (1 << (8 * pos))) % 256
        view = None
        W = 8 * self.length
        v = view_of(self.x, W)
        if v is not None:
            view = (z3.Extract(8 * pos + 7, 8 * pos, v[0]), 8, True)
        return SymInt(e, view)


class SymBytes(bytes):
    """a python `bytes` object of known length whose content is unknown: content = big-endian
    bytes of the symbolic int `sym` (0 <= sym < 2^(8*len)).  It is a real bytes instance (so that
    isinstance(x, bytes), len(x) and truthiness are the native ones); every native operation that
    would look at the content raises EngineError instead of silently using the placeholder."""

    def __new__(cls, length, sym):
        o = bytes.__new__(cls, b"\0" * length)
        o.sym = sym
        return o

    def _leak(self, *a, **k):
        raise EngineError("content of a symbolic bytes object used by native code")

    __eq__ = __ne__ = __lt__ = __le__ = __gt__ = __ge__ = _leak
    __hash__ = __getitem__ = __iter__ = __contains__ = __add__ = __radd__ = __mul__ = _leak
    hex = decode = startswith = endswith = find = index = count = split = strip = lstrip = rstrip = ljust = rjust = _leak

    def __repr__(self):
        return f"SymBytes(len={len(self)})"


def _ext_int_from_bytes(interp, b, byteorder="big", *, signed=False):
    if type(b) is SymBytes:
        if byteorder != "big" or signed:
            raise Unmodelled("int.from_bytes on symbolic bytes: only big-endian unsigned")
        return b.sym
    return int.from_bytes(b, byteorder, signed=signed)


def _z3_BoolVal(interp, v, ctx=None):
    if type(v) is SymBool:
        return v.b
    if type(v) is SymInt:
        raise Unmodelled("BoolVal of a symbolic int")
    return z3.BoolVal(v)


# --------------------------------------------------------------------------------------
# native callables that may receive symbolic values (they only store them)

_NATIVE_OK = {
    list.append,
    list.insert,
    list.extend,
    list.pop,
    list.__setitem__,
    dict.get,
    dict.setdefault,
    dict.items,
    dict.values,
    tuple,
    list,
    reversed,
    enumerate,
    zip,
    iter,
    next,
    id,
    object.__setattr__,
    setattr,
    getattr,
    hasattr,
    BaseException.__init__,
    Exception.__init__,
}


def native_ok_with_sym(f):
    try:
        if f in _NATIVE_OK:
            return True
    except TypeError:
        pass
    mod = getattr(f, "__module__", None) or ""
    if isinstance(mod, str) and (mod.startswith("contracts.") or mod.startswith("pyvc.")):
        return True  # sidecar stubs / contracts are written to receive symbolic values
    n = getattr(f, "__name__", "")
    s = getattr(f, "__self__", None)
    if s is not None and type(s) in (list,) and n in ("append", "insert", "extend", "pop", "__setitem__"):
        return True
    if s is not None and type(s) is dict and n in ("get", "setdefault", "update", "pop"):
        # value positions only; a symbolic key raises through SymInt.__hash__
        return True
    if isinstance(f, type) and issubclass(f, BaseException):
        return True
    if isinstance(f, type) and getattr(f, "__dataclass_fields__", None) is not None:
        return True
    return False


# --------------------------------------------------------------------------------------
# default external models


def _ext_isinstance(interp, v, cls):
    if isinstance(cls, tuple):
        return any(_ext_isinstance(interp, v, c) for c in cls)
    return interp.isinstance_(v, cls)


def _ext_type(interp, *args):
    if len(args) == 1:
        t = type(args[0])
        if t is SymInt:
            return int
        if t is SymBool:
            return bool
        return t
    return type(*args)


def _ext_len(interp, v):
    t = type(v)
    if loader.is_repo_class(t):
        f, _ = mro_lookup(t, "__len__")
        if f is _MISSING:
            raise TypeError(f"object of type '{t.__name__}' has no len()")
        return interp.call(f, [v], {})
    h = interp.externals.get(("len", t))
    if h is not None:
        return h(interp, v)
    return len(v)


def _ext_int(interp, *args, **kw):
    if len(args) == 1 and not kw:
        v = args[0]
        t = type(v)
        if t is SymInt:
            return v
        if t is SymBool:
            return SymInt(iexpr(v), (view_of(v, 1)[0], 1, True))
        if loader.is_repo_class(t):
            f, _ = mro_lookup(t, "__int__")
            if f is not _MISSING:
                return interp.call(f, [v], {})
            f, _ = mro_lookup(t, "__index__")
            if f is not _MISSING:
                return interp.call(f, [v], {})
            raise TypeError(f"int() argument must be a string, a bytes-like object or a real number, not '{t.__name__}'")
    return int(*args, **kw)


def _ext_bool(interp, *args):
    if not args:
        return False
    return interp.truth(args[0])


def _ext_str(interp, *args, **kw):
    if args and (is_sym(args[0]) or loader.is_repo_class(type(args[0]))):
        return "<opaque>"
    return str(*args, **kw)


def _ext_repr(interp, v):
    if is_sym(v) or loader.is_repo_class(type(v)):
        return "<opaque>"
    return repr(v)


def _ext_hash(interp, v):
    t = type(v)
    if loader.is_repo_class(t):
        f, _ = mro_lookup(t, "__hash__")
        if f is not _MISSING and isinstance(f, types.FunctionType):
            return interp.call(f, [v], {})
    if is_sym(v):
        raise Unmodelled("hash of a symbolic int")
    if isinstance(v, tuple) and contains_sym(v):
        raise Unmodelled("hash of a tuple containing a symbolic int")
    return hash(v)


def _minmax(is_max):
    def f(interp, *args, **kw):
        if kw or not (contains_sym(args)):
            return (max if is_max else min)(*args, **kw)
        items = list(args[0]) if len(args) == 1 else list(args)
        best = items[0]
        for x in items[1:]:
            c = interp.compare(ast.Gt if is_max else ast.Lt, x, best)
            if interp.truth(c):
                best = x
        return best

    return f


def _ext_abs(interp, v):
    if is_sym(v):
        if interp.truth(interp.cmp_int(ast.Lt, v, 0)):
            return interp.unary(ast.USub(), v)
        return v
    return abs(v)


def _ext_pow(interp, a, b, m=None):
    if not (is_sym(a) or is_sym(b) or is_sym(m)):
        return pow(a, b) if m is None else pow(a, b, m)
    if m is None:
        return interp.int_op(ast.Pow, a, b)
    if is_sym(m) or m <= 0:
        raise Unmodelled("pow() with a symbolic or non-positive modulus")
    if interp.truth(interp.cmp_int(ast.Lt, b, 0)):
        raise Unmodelled("pow() with a negative exponent and a modulus")
    # square-and-multiply on bounded integers: prompt for any exponent
    return SymInt(POW(iexpr(a), iexpr(b)) % m)


def _ext_sum(interp, it, start=0):
    items = list(interp.iterate(it))
    if not contains_sym(items) and not is_sym(start):
        return sum(items, start)
    acc = start
    for x in items:
        acc = interp.binop(ast.Add, acc, x)
    return acc


def _ext_all(interp, it):
    for x in interp.iterate(it):
        if not interp.truth(x):
            return False
    return True


def _ext_any(interp, it):
    for x in interp.iterate(it):
        if interp.truth(x):
            return True
    return False


def _ext_print(interp, *a, **k):
    interp.ctx.ghost_log.append(("print", a))


def _ext_range(interp, *args):
    if contains_sym(args):
        args = [interp.concretize_unique(a) if is_sym(a) else a for a in args]
    return range(*args)


def _ext_super(interp, *args):
    if len(args) == 2:
        return SuperProxy(args[0], args[1])
    raise Unmodelled("super() with unusual arguments")


def _ext_hasattr(interp, o, name):
    try:
        interp.get_attr(o, name)
        return True
    except AttributeError:
        return False


def _ext_getattr(interp, o, name, *default):
    try:
        return interp.get_attr(o, name)
    except AttributeError:
        if default:
            return default[0]
        raise


def _ext_setattr(interp, o, name, v):
    interp.set_attr(o, name, v)


def _z3_predicate(fn):
    def f(interp, *args, **kw):
        if args and is_sym(args[0]):
            return False
        return fn(*args, **kw)

    return f


def _ext_callable(interp, v):
    return isinstance(v, (InterpFunction, BoundMethod)) or callable(v)


# ---- z3 API with symbolic python ints


def _z3_BitVecVal(interp, v, bv, ctx=None):
    if is_sym(v):
        if is_sym(bv):
            raise Unmodelled("BitVecVal with symbolic width")
        if isinstance(bv, z3.BitVecSortRef):
            bv = bv.size()
        return to_bv(v, bv)
    if is_sym(bv):
        raise Unmodelled("BitVecVal with symbolic width")
    return z3.BitVecVal(v, bv)


def _coerce_pair(interp, a, b):
    if is_sym(a) and isinstance(b, z3.ExprRef):
        a = interp.coerce_for_z3(a, b)
    elif is_sym(b) and isinstance(a, z3.ExprRef):
        b = interp.coerce_for_z3(b, a)
    elif is_sym(a) or is_sym(b):
        raise Unmodelled("z3 operator applied to two python ints")
    return a, b


def _z3_binary(fn):
    def f(interp, a, b):
        a, b = _coerce_pair(interp, a, b)
        if isinstance(a, z3.BitVecRef) and isinstance(b, z3.BitVecRef) and a.size() != b.size():
            interp.ctx.oblige("sort/bv-width", z3.BoolVal(False), info={"fn": fn.__name__, "a": a.size(), "b": b.size()})
        return fn(a, b)

    return f


def _z3_If(interp, c, a, b, ctx=None):
    if type(c) is SymBool:
        c = c.b
    elif type(c) is SymInt:
        raise Unmodelled("If() on a symbolic int condition")
    a, b = _coerce_pair(interp, a, b) if (is_sym(a) or is_sym(b)) else (a, b)
    return z3.If(c, a, b)


def _z3_extractlike(fn, n_int):
    def f(interp, *args):
        if contains_sym(args[:n_int]):
            raise Unmodelled(f"{fn.__name__} with symbolic bounds (needs a case split)")
        rest = list(args[n_int:])
        if contains_sym(rest):
            raise Unmodelled(f"{fn.__name__} applied to a python int")
        return fn(*args)

    return f


def _is_ground_over_int_views(interp, t):
    """True when every leaf of t is a numeral or a bit-vector view of a symbolic python int
    (in reality such a term is ground and z3's simplifier folds it to a numeral)"""
    views = interp.ctx.int_views
    if not views:
        return False
    seen = set()
    stack = [t]
    found = False
    while stack:
        x = stack.pop()
        if x.get_id() in seen:
            continue
        seen.add(x.get_id())
        if z3.is_bv_value(x) or z3.is_int_value(x) or z3.is_true(x) or z3.is_false(x):
            continue
        if z3.is_const(x):
            if x.decl().kind() == z3.Z3_OP_UNINTERPRETED and x.decl().name() in views:
                found = True
                continue
            return False
        if z3.is_app(x):
            if x.decl().kind() == z3.Z3_OP_UNINTERPRETED:
                return False
            stack.extend(x.children())
        else:
            return False
    return found


def _z3_is_bv_value(interp, t):
    if is_sym(t):
        return False
    if z3.is_bv_value(t):
        return True
    if isinstance(t, z3.BitVecRef) and _is_ground_over_int_views(interp, t):
        return True
    return False


def _z3_simplify(interp, t, *a, **k):
    if is_sym(t):
        raise Unmodelled("simplify of a python int")
    return z3.simplify(t, *a, **k)


class _AsLong:
    pass


def _exprref_method(interp, obj, name):
    return None


DEFAULT_EXTERNALS = {
    ("getitem", SymBytesOfInt): lambda interp, o, k: o.byte(k),
    ("len", SymBytesOfInt): lambda interp, o: o.length,
    isinstance: _ext_isinstance,
    type: _ext_type,
    len: _ext_len,
    int: _ext_int,
    bool: _ext_bool,
    str: _ext_str,
    repr: _ext_repr,
    hash: _ext_hash,
    max: _minmax(True),
    min: _minmax(False),
    abs: _ext_abs,
    sum: _ext_sum,
    all: _ext_all,
    any: _ext_any,
    print: _ext_print,
    pow: _ext_pow,
    range: _ext_range,
    super: _ext_super,
    callable: _ext_callable,
    hasattr: _ext_hasattr,
    getattr: _ext_getattr,
    setattr: _ext_setattr,
    z3.BitVecVal: _z3_BitVecVal,
    z3.BoolVal: _z3_BoolVal,
    int.from_bytes: _ext_int_from_bytes,
    z3.ULT: _z3_binary(z3.ULT),
    z3.ULE: _z3_binary(z3.ULE),
    z3.UGT: _z3_binary(z3.UGT),
    z3.UGE: _z3_binary(z3.UGE),
    z3.UDiv: _z3_binary(z3.UDiv),
    z3.URem: _z3_binary(z3.URem),
    z3.SRem: _z3_binary(z3.SRem),
    z3.LShR: _z3_binary(z3.LShR),
    z3.If: _z3_If,
    z3.Extract: _z3_extractlike(z3.Extract, 2),
    z3.ZeroExt: _z3_extractlike(z3.ZeroExt, 1),
    z3.SignExt: _z3_extractlike(z3.SignExt, 1),
    z3.is_bv_value: _z3_is_bv_value,
    z3.simplify: _z3_simplify,
}


for _n in dir(z3):
    if _n.startswith("is_") and _n != "is_bv_value" and callable(getattr(z3, _n)):
        DEFAULT_EXTERNALS[getattr(z3, _n)] = _z3_predicate(getattr(z3, _n))


def _ghost_logger(name):
    def f(interp, *args, **kwargs):
        interp.ctx.ghost_log.append((name, args, kwargs))
        return None

    return f


for _n in ("debug", "debug_once", "info", "warn", "warn_code", "error", "logger_unique_debug"):
    DEFAULT_EXTERNALS[f"halmos.logs:{_n}"] = _ghost_logger(_n)


# --------------------------------------------------------------------------------------
# ghost dictionary with symbolic integer keys (small maps; every key comparison is a path split)


class SymDict:
    accepts_symbolic_keys = True
    """stands for a python dict whose keys may be symbolic ints; `get` / `[]` / `[]=` / `copy` / `in`
    decide key equality by branching, so every aliasing pattern of the keys is explored"""

    def __init__(self, items=None):
        self.items_ = list(items or [])

    def _find(self, key):
        it = Interp.current
        for k, (kk, vv) in enumerate(self.items_):
            if kk is key:
                return k
            r = it.compare(ast.Eq, kk, key)
            if it.truth(r):
                return k
        return None

    def get(self, key, default=None):
        k = self._find(key)
        return default if k is None else self.items_[k][1]

    def __getitem__(self, key):
        k = self._find(key)
        if k is None:
            raise KeyError(key)
        return self.items_[k][1]

    def __setitem__(self, key, value):
        k = self._find(key)
        if k is None:
            self.items_.append((key, value))
        else:
            self.items_[k] = (self.items_[k][0], value)

    def __contains__(self, key):
        return self._find(key) is not None

    def __len__(self):
        return len(self.items_)

    def copy(self):
        return SymDict(self.items_)

    def keys(self):
        return [k for k, _ in self.items_]

    def values(self):
        return [v for _, v in self.items_]

    def items(self):
        return list(self.items_)


# --------------------------------------------------------------------------------------
# ghost byte strings (C07): an immutable `bytes` object of unknown content / symbolic length


class GhostData:
    """byte k = data_<name>(k) (uninterpreted, range [0,255]); length n (int or SymInt)"""

    ghost_of = bytes

    def __init__(self, name, n):
        self.name = name
        self.n = n
        self.f = z3.Function(f"data_{name}", z3.IntSort(), z3.IntSort())

    def byte_expr(self, k):
        return self.f(k)

    def __repr__(self):
        return f"GhostData({self.name})"


class ConstData(GhostData):
    """n copies of one byte (what `b"\\x00" * n` is for a symbolic n)"""

    def __init__(self, byte, n):
        self.name = f"const{byte}"
        self.n = n
        self.byte = byte

    def byte_expr(self, k):
        return z3.IntVal(self.byte)


def _ghostdata_len(interp, d):
    return d.n


class GhostDataView(GhostData):
    """data[a:b] of ghost data with 0 <= a <= b <= len: b - a bytes, byte k = base byte a + k"""

    def __init__(self, base, start, n):
        self.name = f"{base.name}[{start}:+{n}]"
        self.base, self.start, self.n = base, start, n

    def byte_expr(self, k):
        return self.base.byte_expr(iexpr(self.start) + k)


def _ghostdata_getitem(interp, d, key):
    if isinstance(key, slice):
        if key.step is not None:
            raise Unmodelled("slice form on ghost data")
        key = slice(0 if key.start is None else key.start, d.n if key.stop is None else key.stop)  # data[a:], data[:b]
        a, b = iexpr(key.start), iexpr(key.stop)
        if not interp.truth(SymBool(z3.And(a >= 0, a <= b, b <= iexpr(d.n)))):
            raise Unmodelled("slice of ghost data outside 0 <= start <= stop <= len (python would clamp)")
        ln = z3.simplify(b - a)
        return GhostDataView(d, key.start, ln.as_long() if z3.is_int_value(ln) else SymInt(ln))
    ki = iexpr(key)
    if not interp.truth(SymBool(z3.And(ki >= 0, ki < iexpr(d.n)))):
        raise IndexError("index out of range")
    e = d.byte_expr(ki)
    interp.ctx.assume(z3.And(e >= 0, e <= 255))
    return SymInt(e) if not z3.is_int_value(e) else e.as_long()


for _t in (GhostData, ConstData, GhostDataView):
    DEFAULT_EXTERNALS[("len", _t)] = _ghostdata_len
    DEFAULT_EXTERNALS[("getitem", _t)] = _ghostdata_getitem
