"""property packs: a pack is a list of Cases (unit × input-shape case) plus ground checks and
bounded stand-ins; this module runs them in a process pool, applies the ledger and the
known-findings file, replays counterexamples and writes the evidence file."""
from __future__ import annotations

import hashlib
import json
import multiprocessing as mp
import os
import sys
import time
import traceback

VERIF = os.path.dirname(os.path.dirname(os.path.abspath(__file__)))


class Case:
    def __init__(self, unit, case, harness, *, replay=None, contracts=None, externals=None, loop_specs=None, opts=None, sources=(), ledger_key=None, group=None):
        self.unit = unit  # e.g. C06/bitvec.HalmosBitVec.div
        self.case = case  # e.g. term,int
        self.harness = harness
        self.replay = replay
        self.contracts = contracts
        self.externals = externals
        self.loop_specs = loop_specs
        self.opts = opts
        self.sources = sources  # unit specs 'halmos.bitvec:HalmosBitVec.div' for hashing
        self.group = group or case


class Ground:
    """a ground (evaluated) obligation family: fn() -> list of (id, ok, detail)"""

    def __init__(self, unit, fn, sources=()):
        self.unit = unit
        self.fn = fn
        self.sources = sources


class Bounded:
    """bounded stand-in (never counted as proved): fn(tier, seed) -> dict(tool, bound, cases, failures=[...])"""

    def __init__(self, name, fn, quick=True):
        self.name = name
        self.fn = fn
        self.quick = quick


_CASES = []
_TIER = "quick"


def _run_index(i):
    from . import engine

    c = _CASES[i]
    try:
        return i, engine.run_case(
            c.harness,
            unit=c.unit,
            case=c.case,
            contracts=c.contracts,
            externals=c.externals,
            loop_specs=c.loop_specs,
            opts=c.opts,
            tier=_TIER,
        )
    except BaseException as e:  # noqa
        return i, {"unit": c.unit, "case": c.case, "error": "engine", "detail": f"{type(e).__name__}: {e}", "trace": traceback.format_exc()[-2500:], "results": [], "paths": 0}


def ledger_id(oid):
    """ledger granularity: <prop>/<unit>/<clause>/<case> without path ordinals"""
    return oid


MAX_REPLAYS = 40


def load_known_findings():
    p = os.path.join(VERIF, "known_findings.json")
    if not os.path.exists(p):
        return {"findings": [], "fixed": []}
    return json.load(open(p))


def finding_matches(f, prop, r):
    if f.get("property") != prop:
        return False
    if f.get("obligation") and f["obligation"] != r["id"] and not r["id"].startswith(f["obligation"]):
        return False
    m = f.get("match") or {}
    for k, v in m.items():
        if str((r.get("info") or {}).get(k)) != str(v):
            return False
    return True


def run_pack(prop, cases, grounds=(), bounded=(), *, tier="quick", seed=0, assumptions=(), trusted_base=(), technique="", units_under_contract=None, crosscheck=None, update_ledger=False, jobs=None):
    global _CASES, _TIER
    from . import loader

    t_start = time.time()
    _CASES = list(cases)
    _TIER = tier
    jobs = jobs or int(os.environ.get("VERIF_JOBS", "16"))
    outs = [None] * len(_CASES)
    budget_exceeded = False
    if _CASES:
        ctx = mp.get_context("fork")
        # wall budget: on a changed tree some queries can become hard (every one of them runs into its time limit);
        # the check then reports what it has, the unfinished cases as undecided, instead of running for hours
        budget = float(os.environ.get("VERIF_MAX_WALL", "1500" if tier == "quick" else "10800"))
        with ctx.Pool(min(jobs, max(1, len(_CASES)))) as pool:
            it = pool.imap_unordered(_run_index, range(len(_CASES)), chunksize=1)
            done = 0
            while done < len(_CASES):
                left = budget - (time.time() - t_start)
                try:
                    i, out = it.next(timeout=max(1.0, left))
                except mp.TimeoutError:
                    pool.terminate()
                    break
                except StopIteration:
                    break
                outs[i] = out
                done += 1
        budget_exceeded = any(o is None for o in outs)
        for i, o in enumerate(outs):
            if o is None:
                c = _CASES[i]
                outs[i] = {"unit": c.unit, "case": c.case, "error": "out-of-subset", "detail": f"not finished within the wall budget of {int(budget)} s (undecided)", "results": [], "paths": 0}

    engine_errors = []
    out_of_subset = []
    all_results = []
    paths = 0
    for c, o in zip(_CASES, outs):
        paths += o.get("paths", 0)
        if o["error"] == "out-of-subset":
            out_of_subset.append((c.unit, c.case, o["detail"]))
        elif o["error"]:
            engine_errors.append((c.unit, c.case, o["detail"], o.get("trace", "")))
        for r in o["results"]:
            r["_case"] = c
            all_results.append(r)

    # ground obligations
    ground_results = []
    for g in grounds:
        try:
            for tup in g.fn():
                gid, ok, detail = tup[:3]
                ground_results.append({"id": f"{g.unit}/{gid}", "clause": "ground", "kind": "prove", "status": "discharged" if ok is True else ("unknown" if ok is None else "refuted"), "backend": tup[3] if len(tup) > 3 else "ground-evaluation", "seconds": 0.0, "detail": detail, "info": {}, "model": {}, "_ground": g})
        except loader.BindingError as e:
            engine_errors.append((g.unit, "ground", f"BindingError: {e}", ""))
        except Exception as e:  # noqa
            engine_errors.append((g.unit, "ground", f"{type(e).__name__}: {e}", traceback.format_exc()[-2000:]))
    all_results.extend(ground_results)

    prove = [r for r in all_results if r["kind"] == "prove"]
    covers = [r for r in all_results if r["kind"] == "cover"]
    discharged = [r for r in prove if r["status"] == "discharged"]
    refuted = [r for r in prove if r["status"] == "refuted"]
    unknown = [r for r in prove if r["status"] == "unknown"]
    # vacuity guard: a case (unit x input shape) all of whose completed paths have an unsatisfiable
    # path condition proves nothing -> checker error.  A single infeasible path next to reachable
    # ones (a branch kept because its feasibility check timed out) is harmless: its obligations
    # hold vacuously and the reachable paths carry the proof; it is reported, not fatal.
    by_case = {}
    for r in covers:
        c = r.get("_case")
        by_case.setdefault((c.unit, c.case) if c is not None else r["id"], []).append(r)
    vacuous = []
    infeasible_paths = [r for r in covers if r["status"] == "vacuous"]
    for key, rs in by_case.items():
        if rs and all(r["status"] == "vacuous" for r in rs):
            vacuous.extend(rs)

    # ---- ledger
    ledger_path = os.path.join(VERIF, "ledger", f"{prop}.json")
    present = sorted({ledger_id(r["id"]) for r in prove})
    missing = []
    if update_ledger:
        os.makedirs(os.path.dirname(ledger_path), exist_ok=True)
        json.dump({"property": prop, "obligation_ids": present}, open(ledger_path, "w"), indent=0)
    elif os.path.exists(ledger_path):
        want = set(json.load(open(ledger_path))["obligation_ids"])
        missing = sorted(want - set(present))

    # ---- known findings / replay
    kf = load_known_findings()
    violations = []
    known_hits = []
    os.makedirs(os.path.join(VERIF, "replays", prop), exist_ok=True)
    for r in refuted:
        hit = next((f for f in kf.get("findings", []) if finding_matches(f, prop, r)), None)
        if hit is not None:
            known_hits.append((hit, r))
            continue
        c = r.get("_case")
        rep = {"reproduced": None, "detail": "no replay harness for this obligation"}
        if c is not None and c.replay is not None and len(violations) >= MAX_REPLAYS:
            rep = {"reproduced": None, "detail": f"replay skipped: more than {MAX_REPLAYS} violated obligations in this run (the first ones are replayed)"}
        elif c is not None and c.replay is not None:
            try:
                rep = c.replay(r)
            except Exception as e:  # noqa
                rep = {"reproduced": None, "detail": f"replay harness crashed: {type(e).__name__}: {e}", "trace": traceback.format_exc()[-1500:]}
        elif r.get("_ground") is not None:
            rep = {"reproduced": True, "detail": r.get("detail", "")}
        fn = hashlib.sha256(r["id"].encode()).hexdigest()[:12]
        path = os.path.join(VERIF, "replays", prop, f"{fn}.json")
        doc = {k: v for k, v in r.items() if not k.startswith("_")}
        doc["property"] = prop
        doc["replay"] = rep
        json.dump(doc, open(path, "w"), indent=1, default=str)
        violations.append((r, rep, path))

    seen_known = set()
    for hit, r in known_hits:
        key = hit.get("id") or hit.get("obligation")
        if key in seen_known:
            continue
        seen_known.add(key)
        print(f"KNOWN-FINDING: property={prop} {hit.get('what', r['id'])}")

    # ---- bounded stand-ins
    bounded_out = []
    bounded_fail = []
    for b in bounded:
        if tier == "quick" and not b.quick:
            continue
        try:
            res = b.fn(tier, seed)
        except Exception as e:  # noqa
            res = {"tool": "?", "error": f"{type(e).__name__}: {e}", "trace": traceback.format_exc()[-1500:], "failures": []}
            engine_errors.append((b.name, "bounded", res["error"], res["trace"]))
        res["name"] = b.name
        res["label"] = "bounded (not counted as proved)"
        bounded_out.append(res)
        for f in res.get("failures", []):
            hit = next((k for k in kf.get("findings", []) if k.get("property") == prop and k.get("bounded") == b.name and str(k.get("witness")) == str(f.get("witness"))), None)
            if hit is not None:
                key = hit.get("id")
                if key not in seen_known:
                    seen_known.add(key)
                    print(f"KNOWN-FINDING: property={prop} {hit.get('what')}")
                continue
            bounded_fail.append((b.name, f))

    # ---- cross-check (engine translation validation)
    cross = None
    if crosscheck is not None:
        try:
            cross = crosscheck(tier, seed)
            if cross.get("disagreements"):
                engine_errors.append(("crosscheck", "", f"{len(cross['disagreements'])} disagreement(s) between the engine and CPython: {cross['disagreements'][:3]}", ""))
        except Exception as e:  # noqa
            engine_errors.append(("crosscheck", "", f"{type(e).__name__}: {e}", traceback.format_exc()[-2000:]))

    # ---- unit table
    units = {}
    for c in _CASES:
        units.setdefault(c.unit, {"cases": 0, "sources": set(c.sources)})
        units[c.unit]["cases"] += 1
        units[c.unit]["sources"].update(c.sources)
    for g in grounds:
        units.setdefault(g.unit, {"cases": 1, "sources": set(g.sources)})
    unit_table = []
    for u, d in sorted(units.items()):
        hashes = {}
        for s in sorted(d["sources"]):
            try:
                sf, node = loader.find_unit(s)
                hashes[s] = sf.sha(node)
            except BaseException as e:  # noqa
                hashes[s] = f"unbound: {e}"
        st = "proved"
        if any(x[0] == u for x in out_of_subset):
            st = "out-of-subset"
        elif any(x[0] == u for x in engine_errors):
            st = "engine-error"
        elif any(r["id"].startswith(u + "/") for r in refuted):
            st = "refuted"
        elif any(r["id"].startswith(u + "/") for r in unknown):
            st = "undecided"
        unit_table.append({"unit": u, "cases": d["cases"], "status": st, "source_sha256_16": hashes})

    backends = {}
    for r in prove:
        if r["status"] == "discharged":
            b = backends.setdefault(r["backend"], {"count": 0, "seconds": 0.0})
            b["count"] += 1
            b["seconds"] = round(b["seconds"] + r["seconds"], 3)

    samples = []
    seen_clause = set()
    for r in discharged:
        k = (r["id"].split("/")[1] if "/" in r["id"] else r["id"], r["clause"])
        if k in seen_clause or len(samples) >= 8:
            continue
        seen_clause.add(k)
        samples.append({"id": r["id"], "backend": r["backend"], "seconds": r["seconds"], "form": r.get("form"), "obligation": r.get("text") or r.get("detail")})

    wall = time.time() - t_start
    n_viol = len(violations) + len(bounded_fail)
    evidence = {
        "property_id": prop,
        "tier": tier,
        "seed": seed,
        "level": "proof",
        "coverage": {
            # obligations refuted in exactly the way a listed known finding describes are not claimed:
            # they are reported under known_findings_matched, and the same obligation restricted to the
            # complement of the finding's witness region is a separate obligation that is counted here
            "obligations": len(prove) - len(known_hits),
            "discharged": len(discharged),
            "checker_cmd": f"/venv/bin/python /verif/bin/check {prop} --tier {tier}",
            "trusted_base": list(trusted_base),
            "samples": samples or [{"note": "no discharged obligation"}],
            "technique": technique,
            "units": unit_table,
            "functions_under_contract": len(unit_table),
            "paths_explored": paths,
            "backends": backends,
            "undecided": [r["id"] for r in unknown][:50],
            "refuted": [r["id"] for r in refuted][:50],
            "known_findings_matched": sorted({(h.get("id") or h.get("obligation")) for h, _ in known_hits}),
            "obligations_matching_known_findings": len(known_hits),
            "vacuity": {"path_covers": len(covers), "reachable": sum(1 for r in covers if r["status"] == "covered"), "vacuous": [r["id"] for r in vacuous][:20], "infeasible_paths_next_to_reachable_ones": len(infeasible_paths) - len(vacuous), "note": "each completed path carries a cover (= must-fail twin of `ensures false`): its path condition must be satisfiable"},
            "out_of_subset": [list(x) for x in out_of_subset][:30],
            "engine_errors": [list(x[:3]) for x in engine_errors][:30],
            "ledger": {"expected_ids": None if update_ledger or not os.path.exists(ledger_path) else len(json.load(open(ledger_path))["obligation_ids"]), "present_ids": len(present), "missing": missing[:30]},
            "bounded_checks": bounded_out,
            "crosscheck": cross,
            "explanation": "obligations = verification conditions generated from the current /repo source by the pyvc symbolic executor against the sidecar contracts in /verif/contracts; discharged = proved unsat (negated goal) by the named back end; bounded_checks are separate and not included in these counts",
        },
        "assumptions": list(assumptions),
        "wall_s": round(wall, 2),
        "violations": n_viol,
    }
    os.makedirs(os.path.join(VERIF, "evidence"), exist_ok=True)
    ev_dir = os.environ.get("VERIF_EVIDENCE_DIR") or os.path.join(VERIF, "evidence")  # seeded/mutation runs write elsewhere
    os.makedirs(ev_dir, exist_ok=True)
    json.dump(evidence, open(os.path.join(ev_dir, f"{prop}.json"), "w"), indent=1, default=str)

    # ---- verdict
    print(f"[{prop}] tier={tier} units={len(unit_table)} cases={len(_CASES)} paths={paths} obligations={len(prove)} discharged={len(discharged)} refuted={len(refuted)} (known: {len(known_hits)}) unknown={len(unknown)} covers={len(covers)} vacuous={len(vacuous)} wall={wall:.1f}s")
    for u, cs, d in out_of_subset[:10]:
        print(f"  OUT-OF-SUBSET {u}/{cs}: {d}")
    for x in engine_errors[:10]:
        print(f"  ENGINE-ERROR {x[0]}/{x[1]}: {x[2]}")
        if os.environ.get("VERIF_DEBUG") and x[3]:
            print(x[3])
    for r in unknown[:10]:
        print(f"  UNDECIDED {r['id']}")
    for r in vacuous[:10]:
        print(f"  VACUOUS {r['id']}")
    for m in missing[:10]:
        print(f"  MISSING-OBLIGATION {m}")
    if violations or bounded_fail:
        for r, rep, path in violations:
            tail = "" if rep.get("reproduced") else " no-failing-input-found"
            print(f"  violated obligation {r['id']} :: {rep.get('detail', '')[:300]}")
            print(f"VIOLATION property={prop} replay={path}{tail}")
        for name, f in bounded_fail:
            fn = hashlib.sha256((name + str(f.get('witness'))).encode()).hexdigest()[:12]
            path = os.path.join(VERIF, "replays", prop, f"bounded-{fn}.json")
            json.dump({"property": prop, "bounded_check": name, "failure": f}, open(path, "w"), indent=1, default=str)
            print(f"  bounded stand-in {name} failed: {str(f)[:300]}")
            print(f"VIOLATION property={prop} replay={path}")
        return 1
    if budget_exceeded:
        print(f"UNDECIDED property={prop}: the wall budget was exceeded before every case had finished")
        return 2
    if engine_errors or vacuous or missing:
        return 3
    if unknown or out_of_subset:
        return 2
    return 0
