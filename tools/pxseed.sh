#!/bin/bash
# usage: pxseed.sh <seed-id> <Cxx> [Cxx...]   -- like xseed.sh, but in a scratch worktree of its own under /tmp
# (VERIF_REPO_SRC), so that several seeds can be checked at the same time and /repo is never patched.
export VERIF_EVIDENCE_DIR=/tmp/verif-scratch-evidence/$1
id=$1; shift
wt=/tmp/xs-$id
git -C /repo worktree remove --force $wt >/dev/null 2>&1
git -C /repo worktree add -q --detach $wt HEAD || exit 9
pf=/verif/seeded/$id/patch.diff; [ -f /verif/seeded/$id/patch.rebased.diff ] && pf=/verif/seeded/$id/patch.rebased.diff  # (rebased by hand where a later fix: commit rewrote the lines the seed touches)
git -C $wt apply $pf 2>/dev/null || (cd $wt && patch -p1 -s --fuzz=3 --no-backup-if-mismatch < $pf) || { echo "$id: PATCH-DOES-NOT-APPLY on the current /repo HEAD"; git -C /repo worktree remove --force $wt; exit 9; }
export VERIF_REPO_SRC=$wt/src
cd /verif
for pr in "$@"; do
  VERIF_JOBS=${VERIF_JOBS:-6} /venv/bin/python bin/check $pr --no-bounded > /tmp/pxseed_${id}_$pr.out 2>&1; rc=$?
  echo "$id [$pr]: exit=$rc $(grep -c '^VIOLATION' /tmp/pxseed_${id}_$pr.out) viol; $(grep -E 'violated obligation|ENGINE-ERROR|OUT-OF|MISSING|UNDECIDED' /tmp/pxseed_${id}_$pr.out | head -2 | cut -c1-260)"
done
git -C /repo worktree remove --force $wt
