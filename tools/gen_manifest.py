#!/venv/bin/python
"""writes /verif/MANIFEST.json from the table below (one place to edit)"""
import json
import os

VERIF = os.path.dirname(os.path.dirname(os.path.abspath(__file__)))

PROOF = "proof"
CHECKS = {
    "C06": dict(
        text="Deductive: every HalmosBitVec/HalmosBool operation, SEVM.arith, bitwise, sym_byte_of and the dispatch arm of SEVM.run of each word instruction is symbolically executed from its current AST for every operand representation (int-backed / term-backed / Bool-backed); the postcondition den(result) = Yellow-Paper result, the class invariant, absence of internal exceptions and a cost bound are discharged for all 2^256 operand values by z3/cvc5 (about 19 800 obligations, all required to be discharged; ledger of obligation ids guards against silently skipped units).",
        ref="DESIGN.md 4/C06",
        note="Trusted: the pyvc VC generator and its Python-subset semantics, z3/cvc5, specs/evm_word.py, z3py operator coercions, z3.simplify. Assumed: integer/SMT-LIB bridge of the word spec; EXP as an uninterpreted function shared by code and spec; generator/worklist protocol of SEVM.run outside the arms.",
        technique="contracts on the real functions, VCs from the AST (pyvc), z3 + cvc5",
    ),
    "C02": dict(
        text="Deductive (sigma-coverage): with the path condition PC and each branching condition as arbitrary truth values under an arbitrary valuation, the real bodies of SEVM.jumpi, Exec.check/quick_custom_check, Exec.select, SEVM.calldataload, handle_insufficient_fund_case, transfer_value, resolve_address_alias and the symbolic-JUMP arm of SEVM.run are executed from the AST for every solver answer (sat/unsat/unknown), visit count, --loop value and target validity, and the VCs `PC and <direction of this input> => some successor stands for it, or the cut is logged, or the state ends with that direction's EVM error` are discharged; an `unsat` answer is only accepted with a reason that excludes the query under PC (solver, negation present, literally false, or the documented hash-range pattern, itself an SMT lemma); successors carry exactly the branch condition; balances are updated pointwise. One genuine defect is recorded as a known finding (alias resolution excludes the test contract's own address) with the complement region proved.",
        ref="DESIGN.md 4/C02 and 11",
        note="Trusted: pyvc, z3. Assumed: create_branch by contract (parent path + pending condition); the worklist/activation discipline of SEVM.run (every pushed state is later popped, activated and run) is NOT under contract, so this is per-unit coverage, not a whole-exploration theorem; hash range/injectivity and MAX_ETH are the documented modelling assumptions; assert/assume arms are proved in the C13 pack; arith axioms in the C06 pack.",
        technique="sigma-coverage VCs generated from the real source AST (pyvc) with the solver as a contract, z3",
    ),
    "C07": dict(
        text="Deductive, bounded in the number of chunks only: abstract view (length, byte at every offset, zero beyond the end). The real bodies of ByteVec.get_byte, slice, set_byte, set_slice, append, set_word, copy (with _load_chunk, the Chunk slicing helpers and ConcreteChunk/SymbolicChunk methods they call) are executed from the AST on symbolic layouts of 0..3 chunks whose lengths, window positions, offsets and contents are symbolic (ghost sorted container with symbolic keys, ghost byte strings), so every relative position of offsets and chunk boundaries is a path; pointwise obligations in one arbitrary offset prove the flat-array semantics (read = view, slice = window with zero extension and untouched original, writes change exactly [start,stop) with zero backfill, append, big-endian word), well-formedness of the representation after every operation, that every stored element is an immutable Chunk (syntactic immutability frame on the Chunk classes), copy independence in both directions, and the memory-limit guard of State.mslice/set_mslice.",
        ref="DESIGN.md 4/C07 and 13",
        note="Trusted: pyvc incl. the ghost SymSortedDict (contract of sortedcontainers.SortedDict), z3. BOUNDED in chunk count (target <= 3 chunks, ByteVec values 2 chunks); unwrap/get_word/concretize and longer layouts are covered only by the bounded differential stand-in (random operation sequences against a bytearray), which is not counted as proved.",
        technique="abstract-view contracts proved by executing the real AST on symbolic chunk layouts (ghost containers with symbolic keys), quantifier-free LIA+UF VCs in one arbitrary offset, z3; bounded differential stand-in",
    ),
    "C08": dict(
        text="Deductive, relative to an abstract decode: the real init/load/store bodies of SolidityStorage and GenericStorage are executed from the AST on a real Exec (real Path, real Exec.select) and, for write/read scripts over symbolic keys and values, the value read is proved under the path's own conditions (array definitions, per-index emptiness axioms) to be the most recent write to an equal key of the same structure, else the initial value (zero; unconstrained in symbolic-storage mode); structures that differ in slot, number of keys or key width never influence each other; nested mappings distinguish key order; simple_hash is injective. SEVM.sload/sstore use the configured layout on the right (transient/persistent) map and record the access; run_message gives every transaction a fresh empty transient map per account and a private copy of storage; OffsetMap with symbolic 256-bit keys (hit iff same bucket, delta exact) and KeccakRegistry (hash value + offset recovered as expr + offset); all 770 precomputed keccak entries are checked against real keccak256 and against the registry (ground).",
        ref="DESIGN.md 4/C08 and 12",
        note="Trusted: pyvc, z3, eth_hash keccak. Assumed: the contract of decode (location term -> key structure) for the location tokens used; decode/normalize themselves inspect z3 term syntax and are a bounded stand-in (location-expression grammar in several spellings, both layouts, z3-compared); hash injectivity/range are the property's documented assumptions; finite write/read scripts (two writes and a read per structure).",
        technique="contracts relative to an abstract decode: real AST executed by pyvc on a real Exec, array VCs under the path's own conditions (z3); ghost dictionary with symbolic keys; ground table check; bounded decode grammar as labelled stand-in",
    ),
    "C09": dict(
        text="Deductive per frame, with ownership/frame conditions: the real bodies of SEVM.call (send_callvalue, call_known and its callback), SEVM.create (and its callback), SEVM.sstore and the LOG arms are executed from the AST on real Exec objects with symbolic words. Proved: message construction per scheme (own address, sender, value, origin, static flag inherited or set, callee code from pc 0 on an empty frame, one level deeper); the snapshot (code map, storage, transient storage, balance, taken before the value transfer) consists of objects NOT reachable from the state the sub-frame works on, so restoration is exact for every callee behaviour; a failing frame leaves storage, transient storage, balances and code exactly as before (fresh copies), flag 0; a successful frame's effects persist, flag 1; return data copy; caller stack/memory/pc/loop record restored; the continuation owns a deep copy of the caller's context (trace, prank); stuck sub-frames end the path reported; insufficient-funds successor for CALL and CALLCODE; value moves for CALL only, pointwise; SSTORE/TSTORE/LOGn/CREATE/CREATE2 fail inside static frames; CREATE/CREATE2 frames, new-account setup and undo. One genuine defect is a recorded known finding (value-bearing CALL inside a static frame is accepted).",
        ref="DESIGN.md 4/C09 and 11",
        note="Trusted: pyvc, z3, the object-graph reachability walk. Assumed: SEVM.run delivers each sub-frame's end state to its callback exactly once (worklist protocol, not under contract) - atomicity of whole call trees follows by induction on nesting only under that assumption; copy.deepcopy; one representative call layout with symbolic words; call_unknown (precompiles, cheatcode addresses, accounts without code) is not under contract.",
        technique="per-frame contracts with ownership/frame conditions: real AST of call/create and callbacks executed by pyvc on real Exec objects with symbolic words; snapshot unreachability proves exact restoration for every callee behaviour; z3",
    ),
    "C10": dict(
        text="Deductive: with a ghost warning log as the observable, the real bodies are executed from the AST and it is proved that (jumpi) for every solver answer, visit count and --loop value a direction that is not proved infeasible and not followed is recorded in bounded_loops, a decided condition is never cut, counters advance; (run) a state is discarded iff --depth is set and exceeded and then a warning naming --depth is logged; an unsupported feature ends the path stuck and the state is still reported; (run_test) the loop is left iff --width is set and reached, with a warning; stuck paths are kept unless proved infeasible; (run_test, setup, run_target_function) non-empty bounded_loops of the engine that ran => LOOP_BOUND warning; stuck calls in invariant testing are logged.",
        ref="DESIGN.md 4/C10 and 11",
        note="Trusted: pyvc, z3. Assumed: rendering and the duplicate filter of halmos.logs are not modelled (observable = the call); the verdict consequence of a stuck path is the C05 proof; whole-loop orchestration of SEVM.run is not under contract; run_target_function's warning is emitted when its generator is consumed to the end.",
        technique="fragment/function VCs generated from the real source AST (pyvc) with a ghost warning log, symbolic limits and counters, z3 LIA",
    ),
    "C14": dict(
        text="Deductive: the Prank record is proved to be the two-field state machine of the property for every state, operation and target address (int-backed addresses with an arbitrary value, term-backed addresses, both cheatcode addresses): prank/startPrank succeed iff none is active and record exactly (sender, origin, persistence); lookup applies the active prank to a call iff its target is not a cheatcode address and consumes it iff it is one-shot; cheatcode calls neither see nor consume it; Exec.resolve_prank maps the record to msg.sender / tx.origin; every CallContext construction site starts from a fresh Prank (nested frames, later transactions). The prank arms of hevm_cheat_code.handle pass the low 160 bits of the right argument words and turn a refusal into an error; fee/chainId/coinbase/difficulty/roll/warp change exactly one block field and the matching reading arm of SEVM.run pushes exactly the supplied word; deal / balance_update are pointwise (targeted account only). create_uint/int (all widths, >256 rejected), uint256/int256/bytes32/address/bool/bytes4/bytes8/bytes and the min/max variant return the ABI encoding (zero/sign extension, left alignment, length prefix) of one unconstrained symbol of the requested width whose label carries a per-path counter proved strictly increasing; range constraints are exactly min <= v <= max.",
        ref="DESIGN.md 4/C14 and 11",
        note="Trusted: pyvc, z3. Assumed: cheatcode calls are recognised by the literal address (as SEVM.call does); deepcopy carries the caller's record across calls; store/load/etch arms are not under contract (they go through sstore/sload/set_code: C08); ByteVec operations used by the encoders run through the interpreter on concrete layouts; independence of created symbols rests on label uniqueness via the proved counter (uid() not relied on).",
        technique="state-machine and encoder contracts: VCs from the real source AST (pyvc) over symbolic addresses/words, handle() fragments composed with run() reading arms, syntactic site check, z3",
    ),
    "C15": dict(
        text="Deductive per function (the global coverage statement is NOT claimed): the body of _compute_frontier's loop over post-states is executed as a fragment for every kind of post-state and each is proved to be exactly one of stuck (logged, dropped) / reverted without assertion failure (dropped) / assertion failure (handed to the solver once with a description naming the function, unless that probe was reported; not explored further) / already visited (dropped) / new (call sequence = previous + this call, fresh 64-bit timestamp constrained unsigned-non-decreasing for every previous timestamp, appended to the next frontier and yielded); run_target_contract calls every selected function once with fresh symbolic origin/sender (160 bits) and value (256 bits), restricts the sender exactly to targetSender minus excludeSender (else not-excluded, else free; proved as an SMT equivalence for five configurations), and survives a failing function; get_frontier cache; __main__.run_message visits depths 0..d and every state; resolve_target_contracts / resolve_target_selectors agree with Foundry's filter algebra exhaustively over small universes (2048 + 32 configurations); snapshot_state's hashed streams consist of the balance term id, code identities, storage keys/value ids and exactly the sliced path condition ids. One defect repaired (signed timestamp comparison), one recorded as a known finding (partial frontier served from the cache after an early stop).",
        ref="DESIGN.md 4/C15 and 12",
        note="NOT CLAIMED: `every sequence of at most d calls is represented among the explored states` - this follows from these contracts and C02 only if SEVM.run explores every pushed state (worklist protocol, not under contract). Trusted: pyvc, z3, Foundry's rules as transcribed. Assumed: 64-bit hash collisions absent; small-universe exhaustiveness for the set algebra; the call itself is C02/C09/C10 material.",
        technique="fragment/function VCs from the real source AST (pyvc) with callee contracts; exhaustive small-universe comparison for the filter algebra; recorded hash streams; z3",
    ),
    "C16": dict(
        text="Deductive, with ghost state meaning: id -> condition: (1) Path.to_smt2 with caching pins every condition whose z3 id is exported as an assertion name in a module-level registry that the module never shrinks, so by the external contract of get_id (unique among live terms) an id never changes meaning; (2) from_result attaches the core parsed from the same output iff the answer is unsat and caching is on; (3) the callback records a core only for unsat and only if non-empty; append_unsat_core stores it where solve_end_to_end looks; (4) check_unsat_cores is True iff some recorded core is a subset of the query's ids (every membership combination, symbolic); (5) solve_end_to_end answers unsat without a solver only on such a hit and otherwise returns the solver's (or the refined query's) answer. With solver soundness this gives: a cached unsat is only given to a query containing a set of conditions a solver proved unsatisfiable. A genuine defect (id reuse after garbage collection gave a false hit) was found by this obligation, replayed natively and repaired.",
        ref="DESIGN.md 4/C16 and 11",
        note="Trusted: pyvc, z3, the ghost-state argument. Assumed: z3's get_id uniqueness among live terms; solver soundness and well-formed cores; serialisation facts proved in the C11 pack; parse_unsat_core on a listed family of outputs; GIL atomicity of list.append. The native id-collision search is a bounded stand-in reported separately.",
        technique="contracts with ghost id->condition meaning; VCs from the real source AST (pyvc), registry frame condition on the module AST, z3; bounded native history search as labelled stand-in",
    ),
    "C03": dict(
        text="Deductive for the test-level links of the chain (the end-to-end theorem is NOT claimed): CallOutput.is_panic_of recognises Panic(k) for EVERY concrete k exactly when k is a configured code (any k if none configured), and nothing else (other errors, other selectors, other lengths); Exec.is_panic_of asks its own frame; is_global_fail_set = own assert-cheatcode failure or some sub-tree's flag, by induction on the call tree (failures at any nesting depth count); the run_test path loop hands every Panic/failure-flag path to the solver exactly once and nothing else (shared with C05); handle_assertion_violation serialises that path's constraints at that moment and submits exactly one solve_end_to_end job with the callback attached; the setUp path selection keeps every error-free path unless the solver proves it infeasible and requires exactly one (16 answer combinations); the verdict chain (C05). One recorded known finding: a Panic whose code is not a constant is dismissed.",
        ref="DESIGN.md 4/C03 and 12",
        note="NOT CLAIMED: `PASS without a warning => no admissible input makes the concrete test fail`. That is the (not machine-checked) composition of these contracts with C02/C10 (needs the worklist assumption of SEVM.run), C01 (not claimed), C11, C12, C13, C05. Trusted: pyvc, z3. Assumed: induction on the call tree with arity <= 3; fragments of setup()/run_test.",
        technique="test-level contracts on the real code (pyvc): classification predicates over symbolic panic codes, induction on the call tree by contract, fragments with callee contracts; composition stated as a lemma with listed assumptions",
    ),
    "C04": dict(
        text="Deductive for the classification-and-transport chain between the solver's answer and what the user is told (NOT for the end-to-end reproducibility clause): from_result attaches the model parsed from the very output and the validity flag computed from the very output; is_model_valid is true only if the output mentions no f_evm_* abstraction; solve_end_to_end refines an invalid, unrefined sat answer once and returns the refined query's answer; the callback files a model under valid_counterexamples iff its flag says valid and otherwise under invalid_counterexamples with the 'potentially invalid' warning; parse_model_str stores every matched variable under its full name with the value its parser returns and re-raises parse errors; parse_const_value / _parse_halmos_var_match / PotentialModel.__str__ carry the literal's value (listed literal family up to 512 bits).",
        ref="DESIGN.md 4/C04 and 11",
        note="NOT CLAIMED: that the concrete execution with the printed values really ends in the reported failure (composition of C01 and C11, out of reach of per-function contracts). Trusted: pyvc, z3. Assumed: exactness of refinement is the C11 proof; string functions are checked on listed families, and as a bounded stand-in on the model text printed by the installed z3 4.8 / z3 5.1 / cvc5 / yices binaries.",
        technique="contracts on the real functions with callee contracts, VCs from the AST (pyvc); listed string families; bounded stand-in on real solver output",
    ),
    "C20": dict(
        text="Deductive ownership/frame contracts: every field of Exec (introspected on each run; an unclassified field is an obligation failure) is classified as `own copy` or `shared on purpose, with the reason`; SEVM.create_branch (sibling paths) and SEVM.run_message (the state of a new transaction/test derived from the post-setUp or frontier state) are executed from the AST on a representative rich state and every own-copy field is proved distinct to the depth it needs, the copies start equal, later writes of the derived state (storage, counters, aliases, keys, signatures, stack, trace, loop counts) are invisible to the original, and the starting state is not modified; Path.branch / Path.extend_path ownership (shared with C02/C11); __main__.run_message gives every (state, test) pair a solver and a Path of its own and resets the solver also on exceptions; run_tests gives every test its own FunctionContext from the contract's configuration and the same setUp state and isolates exceptions; State/Contract/ByteVec/KeccakRegistry copies used at fork points. A genuine defect (sibling paths shared the key/signature tables) was found, replayed and repaired.",
        ref="DESIGN.md 4/C20 and 12",
        note="NOT CLAIMED: that verdicts are independent of the random uid() suffixes (a 2-safety property over two runs) and equal across run orders (a whole-history property) - per-function contracts cannot decide them. Trusted: pyvc, z3, copy.deepcopy. Assumed: a representative rich state; the whitelist of intentionally shared components (balance term, Contract, callback, call_sequence, the solver object under the push/pop discipline, term_to_vars memo); process-wide singletons are not symbolic-execution state.",
        technique="ownership/frame contracts: real AST of the fork points executed by pyvc on a representative rich state, every Exec field classified by introspection, identity-level obligations and frame tests; callee contracts for the per-test loop",
    ),
    "C19": dict(
        text="Deductive: insn_len against N(0,w) on the full opcode domain; Contract.__get_jumpdests against the Yellow-Paper D_J by a loop invariant (arbitrary code length and contents, concrete prefix / symbolic bytes, PUSH data straddling the fast-path boundary), with a variant for termination; valid_jumpdests caching; decode past the end = STOP. the jump-destination checks of sevm.py (JUMP arm, concrete JUMPI arm, SEVM.jumpi for every solver answer) against an arbitrary destination set: execution continues at a target only if it is valid, a genuine JUMPDEST is never rejected, an invalid one ends that direction with InvalidJumpDestError. PUSH operand extraction, slices and byte reads are a bounded stand-in (exhaustive short codes natively against specs/dj.py) reported separately and never counted as proved.",
        ref="DESIGN.md 4/C19",
        note="Trusted: pyvc, z3, specs/dj.py. Assumed: flat byte-array contract of bytes/ByteVec __getitem__/__len__ (ghost sequence); Contract invariant _fastcode = concrete first chunk of _code; with symbolic bytes only soundness (subset of D_J) is proved. Exec.check / create_branch / Exec.advance are used through their contracts in the jump-check proofs.",
        technique="loop-invariant VCs generated from the AST (pyvc), z3; bounded native enumeration as labelled stand-in",
    ),
    "C17": dict(
        text="Thread-modular, deductive per step model: each thread's real AST is executed by pyvc and the other thread's atomic steps (also real AST) are run at every statement boundary under every placement (exhaustive enumeration). Proved: the worker `run` of PopenFuture.start calls set_result exactly once, last, on every outcome of Popen/communicate (normal, TimeoutExpired, OSError, failure to spawn), leaves no process alive, and a timeout surfaces from result() as TimeoutExpired through CPython's real Future (=> unknown, never unsat: solve_low_level); run || cancel: once cancellation was requested at any statement boundary the process is never started or is terminated, never left to run; cancel terminates the process tree, tolerates a vanished process, closes pipes; submit || shutdown(wait=False) for every placement of shutdown's two steps: no job is started after shutdown returned, a job started before is cancelled, submit raises ShutdownError iff it saw the flag; shutdown(wait=True) waits for every job whatever the outcome of the others; shutdown_all. Three genuine defects were found by these obligations, replayed with real threads and repaired.",
        ref="DESIGN.md 4/C17 and 11",
        note="Trusted: pyvc, CPython's concurrent.futures.Future, the stated step model. Assumed: one Python statement of the verified units is atomic and lock bodies exclude each other (GIL, sequential consistency); one concurrent shutdown against one submit, one concurrent cancel against the worker (several concurrent submits/shutdowns are not modelled); Popen/communicate/psutil by contract (NoSuchProcess only). NOT CLAIMED: liveness beyond `the worker always reaches set_result` (OS-level termination delivery).",
        technique="thread-modular contracts: real AST of each thread executed by pyvc with the other thread's atomic steps interleaved at every statement boundary, schedules enumerated exhaustively; sequential contracts for every outcome of the external calls",
    ),
    "C18": dict(
        text="Deductive: Config.value_with_source against the precedence statement by a loop invariant over a parent chain of arbitrary length (maximal source wins, most recent layer among equals, None only if unset everywhere); __getattribute__ reads its first component; resolved_solver_command prefers --solver-command iff its source >= that of --solver (all source pairs symbolically); with_devdoc / with_natspec add exactly one layer with the right source tag or return the input; load_config layer order; with_overrides stores every given override unchanged whatever its truthiness and rejects unknown options; TomlParser.parse_dict sends every value of a structured option through its parser (so it is validated and means what the command line means) for every TOML value kind, and rejects malformed section layouts. Structured-option round trips (Parse*.parse/unparse, strings and floats) are a bounded stand-in reported separately.",
        ref="DESIGN.md 4/C18",
        note="Trusted: pyvc, z3. Assumed: ghost-layer model of the parent chain (every layer has a real source 1..5), IntEnum compares as int, lru_cache transparent; callees replaced by contracts in caller proofs (get_solver_command, parse_devdoc, parse_natspec, arg_parser, toml parsing). Per-contract/function scoping of annotations in run_tests is not under contract.",
        technique="loop-invariant and call-site VCs generated from the AST (pyvc), z3; bounded grammar enumeration as labelled stand-in",
    ),
    "C11": dict(
        text="Deductive over a finite domain + SMT: for every f_evm_* abstraction symbol halmos.sevm declares (found by introspection on every run), the query text the real Path.to_smt2 produces is passed through the real refine, parsed by z3, and proved for all 256/264/512-bit operands to define the symbol as its exact EVM operation (division/remainder by zero = 0), with exp left uninterpreted and the rest of the query and the assertion ids unchanged; the same for every pair of symbols and all symbols together in one query; Path.to_smt2 (every condition asserted once, in order, tracked under its id iff caching, never serialising self.solver, which may hold only the sliced subset), Path.append and Path.extend_path (the child carries every parent condition; the solver gets all of them or exactly the sliced subset) and dump (file structure) by symbolic execution of their AST; named-assertion equisatisfiability lemma.",
        ref="DESIGN.md 4/C11",
        note="Trusted: pyvc, z3 (parser + QF_BV), specs/evm_word.py. Assumed: the regexes of refine do not touch other query text (checked on the generated queries only); Path.to_smt2 / extend_path are proved for n <= 3 conditions (bounded in n; the bodies treat conditions opaquely); that every caller adds constraints through Path.append is not under contract.",
        technique="postconditions of the real functions: ground evaluation over the finite symbol domain + SMT validity for all operands; AST symbolic execution (pyvc)",
    ),
    "C12": dict(
        text="Deductive, by structural induction on the ABI type with the recursive calls replaced by the contract: Calldata.encode_tuple for items of ARBITRARY sizes and either static flag (arity <= 4): total size, head/tail layout in order, each dynamic item's head word = the byte offset of its tail, static iff no item is dynamic; Calldata.encode per constructor (static leaf = one fresh 256-bit symbol named by the parameter path and type; bytes/string = size symbol + one symbol of 8*pad32(max candidate) bits; T[] = size symbol + tuple encoding of max(candidates) elements each under its own path name; T[k] and tuples = tuple encoding of the components in order; unknown nodes rejected); get_dyn_sizes returns and registers exactly the configured candidates (else the default list of the kind) with a fresh size symbol; create = selector + encoding, size cross-check; process_dyn_params hands every candidate list to the path. Independent-decoder well-formedness and parse_type are bounded stand-ins.",
        ref="DESIGN.md 4/C12 and 11",
        note="Trusted: pyvc, z3, the ABI rules as transcribed. Assumed: encode_tuple is proved for arity <= 4 (sizes arbitrary); independence of leaves rests on distinct labels - the path name is proved part of the label, unnamed/equally named parameters differ only by uid() (probabilistic, assumed); `every candidate is explored` is the calldataload contract of the C02 pack; ByteVec append/unwrap run through the interpreter on concrete layouts (C07 not proved). Bounded stand-ins (reported separately): real mk_calldata on random type trees decoded by an independent ABI decoder for every candidate-length choice; parse_type grammar incl. unsupported types.",
        technique="structural induction by contract: VCs generated from the real source AST (pyvc) per type constructor with symbolic item sizes, z3 LIA; bounded stand-ins: independent ABI decoder, type-string grammar",
    ),
    "C13": dict(
        text="Deductive + ground: every entry of the assert-cheatcode table (read from the AST) has key = keccak4(signature), is a Forge-std assert form, and the table is complete (76 forms); every *_sig constant equals keccak4 of the signature in its comment; for every table signature the real mk_assert_handler -> vm_assert_* -> mk_cond chain is symbolically executed and its condition proved equivalent, for all 256-bit operands, to the relation the signature names (unsigned/signed, bit equality, length-sensitive equality for bytes/string/arrays), for symbolic operands and for concrete operands of arbitrary content (symbolic python bytes), with the message read from the right slot; the assert and assume arms of hevm_cheat_code.handle are executed as fragments for all 3x3 solver answers (failing state exactly when not proved impossible, carrying exactly Not(cond); assume appends exactly word != 0).",
        ref="DESIGN.md 4/C13",
        note="Trusted: pyvc, z3, eth_hash keccak, the grammar of Forge-std assert forms written in the sidecar. Assumed: calldata extractors replaced by their contracts (ByteVec slicing not proved); bytes/array lengths from a small set (contents symbolic); Exec.check abstracted by its answer; is_global_fail_set / nested-call propagation not under contract.",
        technique="ground table obligations + AST symbolic execution (pyvc) with callee contracts, z3",
    ),
    "C05": dict(
        text="Deductive: the verdict if/elif chain of run_test (taken from the AST) is executed with symbolic non-negative counts and its exit code proved equal to the verdict table for ALL (#sat, #err, #unknown, #stuck, #normal): PASS iff nothing failed and some path succeeded, else FAIL > ERROR > TIMEOUT > STUCK > REVERT_ALL; the counts are read only through Counter over ctx.solver_outputs (permutation invariant, so the verdict depends on the multiset of outcomes only); PASS = 0 and every other code non-zero; solve_low_level maps a TimeoutExpired to unknown, never unsat; the body of run_test's loop over yielded paths classifies each path (assertion-violating => handed to the solver once; stuck => kept unless the solver says unsat; success => normal; --width); _solve_end_to_end_callback records exactly one outcome per job, valid/invalid models go to the right list, an empty or missing unsat core is never recorded, early exit only after a valid counterexample; _get_solver_output turns shutdown/exceptions into err; _main's accounting keeps failed = found - passed and the exit code is 0 iff some test ran and none failed. SolverOutput.from_result is checked over a listed family of solver outputs (exact first line only; empty/garbage/prefix/case variants are err).",
        ref="DESIGN.md 4/C05",
        note="Trusted: pyvc, z3, the verdict table transcription. Assumed: Counter semantics; one element of solver_outputs per submitted job regardless of completion order (thread pool + GIL atomicity); the thread pool's delivery of callbacks is assumed. from_result obligations cover the listed output family, not all strings.",
        technique="fragment VCs generated from the AST (pyvc) over symbolic counts, z3 LIA; ground family for string classification",
    ),
}

NOT_APPLICABLE = {}

DEFAULT_NA = "contracts for this property's units were not brought within reach of the pyvc verifier in the time available (DESIGN.md section 11 lists the units and what blocks them); not claimed rather than covered by a different technique"


def main():
    props = [json.loads(l)["id"] for l in open(os.path.join(VERIF, "properties.jsonl"))]
    checks = []
    for pid in props:
        c = CHECKS.get(pid)
        if not c:
            continue
        checks.append(
            {
                "property_id": pid,
                "quick_cmd": f"/venv/bin/python bin/check {pid} --tier quick",
                "thorough_cmd": f"/venv/bin/python bin/check {pid} --tier thorough",
                "evidence_file": f"/verif/evidence/{pid}.json",
                "replay_cmd_template": "cat {path}",
                "engine": "pyvc",
                "level_claimed": {"category": c.get("category", PROOF), "text": c["text"], "design_ref": c["ref"]},
                "level_note": c["note"],
                "technique": c["technique"],
            }
        )
    m = {
        "version": 1,
        "setup_cmd": "/venv/bin/python -c \"import z3, halmos; print('z3', z3.get_version_string())\" && mkdir -p evidence replays",
        "hooks": {
            "guard": "A16Z_HALMOS_VERIF",
            "enable": "no hooks: the checks read /repo/src/halmos/*.py as text (AST) on every run and import the real package with PYTHONPATH=/repo/src; the guard name is reserved and unused",
            "baseline_off_cmd": "cd /repo && /venv/bin/python -m pytest -ra -q -p no:cacheprovider --timeout=900 --continue-on-collection-errors",
            "source_commits": [],
            "add_only": True,
        },
        "engines": [
            {
                "name": "pyvc",
                "path": "/verif/pyvc",
                "serves_properties": [c["property_id"] for c in checks],
                "kind_free_text": "contract-based deductive verifier built here: symbolic executor over the AST of the real /repo source + sidecar contracts (/verif/contracts), VCs discharged by z3 4.12.6 (in-process), z3-new 5.1.0 and cvc5 1.0.3",
            }
        ],
        "checks": checks,
        "notes": "exit codes of bin/check: 0 held, 1 violation (VIOLATION line), 2 undecided, 3 checker/binding error. known_findings.json lists recorded findings and fixed defects. See DESIGN.md.",
        "not_applicable": [{"property_id": p, "reason": NOT_APPLICABLE.get(p, DEFAULT_NA)} for p in props if p not in CHECKS],
    }
    json.dump(m, open(os.path.join(VERIF, "MANIFEST.json"), "w"), indent=1)
    print("checks:", [c["property_id"] for c in checks])


if __name__ == "__main__":
    main()
