#!/venv/bin/python
"""writes /verif/MANIFEST.json from the table below (one place to edit)"""
import json
import os

VERIF = os.path.dirname(os.path.dirname(os.path.abspath(__file__)))

PROOF = "proof"
CHECKS = {
    "C06": dict(
        text="Deductive: every HalmosBitVec/HalmosBool operation, SEVM.arith, bitwise, sym_byte_of and the dispatch arm of SEVM.run of each word instruction is symbolically executed from its current AST for every operand representation (int-backed / term-backed / Bool-backed); the postcondition den(result) = Yellow-Paper result, the class invariant, absence of internal exceptions and a cost bound are discharged for all 2^256 operand values by z3/cvc5 (about 19 800 obligations, all required to be discharged; ledger of obligation ids guards against silently skipped units).",
        ref="DESIGN.md 4/C06",
        note="Trusted: the pyvc VC generator and its Python-subset semantics, z3/cvc5, specs/evm_word.py, z3py operator coercions, z3.simplify. Assumed: integer/SMT-LIB bridge of the word spec; EXP as an uninterpreted function shared by code and spec; generator/worklist protocol of SEVM.run outside the arms.",
        technique="contracts on the real functions, VCs from the AST (pyvc), z3 + cvc5",
    ),
    "C19": dict(
        text="Deductive: insn_len against N(0,w) on the full opcode domain; Contract.__get_jumpdests against the Yellow-Paper D_J by a loop invariant (arbitrary code length and contents, concrete prefix / symbolic bytes, PUSH data straddling the fast-path boundary), with a variant for termination; valid_jumpdests caching; decode past the end = STOP. PUSH operand extraction, slices and byte reads are a bounded stand-in (exhaustive short codes natively against specs/dj.py) reported separately and never counted as proved.",
        ref="DESIGN.md 4/C19",
        note="Trusted: pyvc, z3, specs/dj.py. Assumed: flat byte-array contract of bytes/ByteVec __getitem__/__len__ (ghost sequence); Contract invariant _fastcode = concrete first chunk of _code; with symbolic bytes only soundness (subset of D_J) is proved. Jump checks inside sevm.py use the proved set through `in` only and are not separately under contract.",
        technique="loop-invariant VCs generated from the AST (pyvc), z3; bounded native enumeration as labelled stand-in",
    ),
    "C18": dict(
        text="Deductive: Config.value_with_source against the precedence statement by a loop invariant over a parent chain of arbitrary length (maximal source wins, most recent layer among equals, None only if unset everywhere); __getattribute__ reads its first component; resolved_solver_command prefers --solver-command iff its source >= that of --solver (all source pairs symbolically); with_devdoc / with_natspec add exactly one layer with the right source tag or return the input; load_config layer order. Structured-option round trips (Parse*.parse/unparse, strings and floats) are a bounded stand-in reported separately.",
        ref="DESIGN.md 4/C18",
        note="Trusted: pyvc, z3. Assumed: ghost-layer model of the parent chain (every layer has a real source 1..5), IntEnum compares as int, lru_cache transparent; callees replaced by contracts in caller proofs (get_solver_command, parse_devdoc, parse_natspec, arg_parser, toml parsing). Per-contract/function scoping of annotations in run_tests is not under contract.",
        technique="loop-invariant and call-site VCs generated from the AST (pyvc), z3; bounded grammar enumeration as labelled stand-in",
    ),
    "C11": dict(
        text="Deductive over a finite domain + SMT: for every f_evm_* abstraction symbol halmos.sevm declares (found by introspection on every run), the query text the real Path.to_smt2 produces is passed through the real refine, parsed by z3, and proved for all 256/264/512-bit operands to define the symbol as its exact EVM operation (division/remainder by zero = 0), with exp left uninterpreted and the rest of the query and the assertion ids unchanged; Path.to_smt2 (every condition asserted once, in order, tracked under its id iff caching, self.solver never read) and dump (file structure) by symbolic execution of their AST; named-assertion equisatisfiability lemma.",
        ref="DESIGN.md 4/C11",
        note="Trusted: pyvc, z3 (parser + QF_BV), specs/evm_word.py. Assumed: the regexes of refine do not touch other query text (checked on the generated queries only); Path.to_smt2 is proved for n <= 3 opaque conditions (bounded in n); that self.conditions holds every accumulated constraint (Path.append/extend_path) is not under contract.",
        technique="postconditions of the real functions: ground evaluation over the finite symbol domain + SMT validity for all operands; AST symbolic execution (pyvc)",
    ),
    "C13": dict(
        text="Deductive + ground: every entry of the assert-cheatcode table (read from the AST) has key = keccak4(signature), is a Forge-std assert form, and the table is complete (76 forms); every *_sig constant equals keccak4 of the signature in its comment; for every table signature the real mk_assert_handler -> vm_assert_* -> mk_cond chain is symbolically executed and its condition proved equivalent, for all 256-bit operands, to the relation the signature names (unsigned/signed, bit equality, length-sensitive equality for bytes/string/arrays with symbolic contents), with the message read from the right slot; the assert and assume arms of hevm_cheat_code.handle are executed as fragments for all 3x3 solver answers (failing state exactly when not proved impossible, carrying exactly Not(cond); assume appends exactly word != 0).",
        ref="DESIGN.md 4/C13",
        note="Trusted: pyvc, z3, eth_hash keccak, the grammar of Forge-std assert forms written in the sidecar. Assumed: calldata extractors replaced by their contracts (ByteVec slicing not proved); bytes/array lengths from a small set (contents symbolic); Exec.check abstracted by its answer; is_global_fail_set / nested-call propagation not under contract.",
        technique="ground table obligations + AST symbolic execution (pyvc) with callee contracts, z3",
    ),
    "C05": dict(
        text="Deductive: the verdict if/elif chain of run_test (taken from the AST) is executed with symbolic non-negative counts and its exit code proved equal to the verdict table for ALL (#sat, #err, #unknown, #stuck, #normal): PASS iff nothing failed and some path succeeded, else FAIL > ERROR > TIMEOUT > STUCK > REVERT_ALL; the counts are read only through Counter over ctx.solver_outputs (permutation invariant, so the verdict depends on the multiset of outcomes only); PASS = 0 and every other code non-zero; solve_low_level maps a TimeoutExpired to unknown, never unsat. SolverOutput.from_result is checked over a listed family of solver outputs (exact first line only; empty/garbage/prefix/case variants are err).",
        ref="DESIGN.md 4/C05",
        note="Trusted: pyvc, z3, the verdict table transcription. Assumed: Counter semantics; one element of solver_outputs per submitted job regardless of completion order (thread pool + GIL atomicity); not under contract: _solve_end_to_end_callback, early-exit, stuck confirmation, _main exit code. from_result obligations cover the listed output family, not all strings.",
        technique="fragment VCs generated from the AST (pyvc) over symbolic counts, z3 LIA; ground family for string classification",
    ),
}

NOT_APPLICABLE = {}

DEFAULT_NA = "contracts for this property's units were not brought within reach of the pyvc verifier in the time available (DESIGN.md section 11 lists the units and what blocks them); not claimed rather than covered by a different technique"


def main():
    props = [json.loads(l)["id"] for l in open(os.path.join(VERIF, "properties.jsonl"))]
    checks = []
    for pid in props:
        c = CHECKS.get(pid)
        if not c:
            continue
        checks.append(
            {
                "property_id": pid,
                "quick_cmd": f"/venv/bin/python bin/check {pid} --tier quick",
                "thorough_cmd": f"/venv/bin/python bin/check {pid} --tier thorough",
                "evidence_file": f"/verif/evidence/{pid}.json",
                "replay_cmd_template": "cat {path}",
                "engine": "pyvc",
                "level_claimed": {"category": c.get("category", PROOF), "text": c["text"], "design_ref": c["ref"]},
                "level_note": c["note"],
                "technique": c["technique"],
            }
        )
    m = {
        "version": 1,
        "setup_cmd": "/venv/bin/python -c \"import z3, halmos; print('z3', z3.get_version_string())\" && mkdir -p evidence replays",
        "hooks": {
            "guard": "A16Z_HALMOS_VERIF",
            "enable": "no hooks: the checks read /repo/src/halmos/*.py as text (AST) on every run and import the real package with PYTHONPATH=/repo/src; the guard name is reserved and unused",
            "baseline_off_cmd": "cd /repo && /venv/bin/python -m pytest -ra -q -p no:cacheprovider --timeout=900 --continue-on-collection-errors",
            "source_commits": [],
            "add_only": True,
        },
        "engines": [
            {
                "name": "pyvc",
                "path": "/verif/pyvc",
                "serves_properties": [c["property_id"] for c in checks],
                "kind_free_text": "contract-based deductive verifier built here: symbolic executor over the AST of the real /repo source + sidecar contracts (/verif/contracts), VCs discharged by z3 4.12.6 (in-process), z3-new 5.1.0 and cvc5 1.0.3",
            }
        ],
        "checks": checks,
        "notes": "exit codes of bin/check: 0 held, 1 violation (VIOLATION line), 2 undecided, 3 checker/binding error. known_findings.json lists recorded findings and fixed defects. See DESIGN.md.",
        "not_applicable": [{"property_id": p, "reason": NOT_APPLICABLE.get(p, DEFAULT_NA)} for p in props if p not in CHECKS],
    }
    json.dump(m, open(os.path.join(VERIF, "MANIFEST.json"), "w"), indent=1)
    print("checks:", [c["property_id"] for c in checks])


if __name__ == "__main__":
    main()
