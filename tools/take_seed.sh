#!/bin/bash
# usage: tools/take_seed.sh <sub-agent worktree> <seed-id>
# takes the uncommitted change + demo.py out of a sub-agent's scratch worktree into seeded/<seed-id>/,
# confirms it there (tools/confirm_seed.sh: demo passes without / fails with, suite unchanged), leaves the worktree clean.
wt=$1; id=$2; d=/verif/seeded/$id
mkdir -p $d
git -C $wt diff -- src > $d/patch.diff
[ -s $d/patch.diff ] || { echo "$id: empty diff"; exit 8; }
cp $wt/demo.py $d/demo.py || exit 8
git -C $wt checkout -q -- src
/verif/tools/confirm_seed.sh $wt $d/patch.diff $d/demo.py | sed "s/^/$id: /"
