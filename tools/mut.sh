#!/bin/bash
export VERIF_EVIDENCE_DIR=/tmp/verif-scratch-evidence
# usage: tools/mut.sh <file-under-/repo/src/halmos> <python-regex-old> <new> <Cxx>   (applies, checks, always reverts)
f=/repo/src/halmos/$1
cp "$f" /tmp/mut.bak
/venv/bin/python - "$f" "$2" "$3" <<'P'
import re,sys
f,old,new=sys.argv[1:4]
s=open(f).read()
s2,n=re.subn(old,new,s,count=1)
if n==0: print("MUTATION DID NOT APPLY"); sys.exit(7)
open(f,'w').write(s2)
P
rc0=$?
if [ $rc0 -ne 0 ]; then cp /tmp/mut.bak "$f"; exit 7; fi
cd /verif; bin/check "$4" ${5:-} > /tmp/mut.out 2>&1; rc=$?
cp /tmp/mut.bak "$f"
echo "exit=$rc"; grep -E "^\[|VIOLATION|UNDECIDED|ENGINE-ERROR|OUT-OF-SUBSET|MISSING|VACUOUS|violated|bounded stand-in" /tmp/mut.out | cut -c1-300 | head -8
