#!/bin/bash
# usage: tools/confirm_seed.sh <worktree> <patch.diff> <demo.py>
# in the scratch worktree (never /repo): demo passes without the change, fails with it, test suite keeps
# the baseline pass/fail set with it; always leaves the worktree clean.  Prints one summary line.
wt=$1; patch=$2; demo=$3
cd "$wt" || exit 9
git checkout -q -- src 2>/dev/null
export PYTHONPATH=$wt/src
/venv/bin/python "$demo" >/tmp/confirm_demo0.out 2>&1; d0=$?
if ! git apply --check "$patch" 2>/dev/null; then echo "PATCH-DOES-NOT-APPLY"; exit 8; fi
git apply "$patch"
/venv/bin/python "$demo" >/tmp/confirm_demo1.out 2>&1; d1=$?
t=$(/venv/bin/python -m pytest -q -p no:cacheprovider --timeout=900 --continue-on-collection-errors 2>&1 | grep -E "[0-9]+ passed" | tail -1)
git checkout -q -- src
echo "demo_without=$d0 demo_with=$d1 tests_with: $t"
