#!/bin/bash
export VERIF_EVIDENCE_DIR=/tmp/verif-scratch-evidence
# usage: tools/try_patch.sh <patch.diff> <Cxx> [extra check args]
# applies the patch to /repo, runs the check, always reverts
patch=$1; prop=$2; shift 2
cd /repo || exit 9
if ! git apply --check "$patch" 2>/dev/null; then echo "PATCH DOES NOT APPLY: $patch"; exit 8; fi
git apply "$patch"
cd /verif
bin/check "$prop" "$@" > /tmp/try_patch.out 2>&1
rc=$?
git -C /repo checkout -- .
echo "exit=$rc"
grep -E "^\[|VIOLATION|UNDECIDED|ENGINE-ERROR|OUT-OF-SUBSET|MISSING|VACUOUS|violated" /tmp/try_patch.out | cut -c1-260 | head -${LINES_MAX:-12}
exit $rc
