#!/bin/bash
# usage: tseed.sh <seed-id> <Cxx> [--only S]  -- quick test of one pack (or part) on a scratch worktree with the seed applied
id=$1; pr=$2; shift 2
wt=/tmp/ts-$id-$$
git -C /repo worktree add -q --detach $wt HEAD || exit 9
git -C $wt apply /verif/seeded/$id/patch.diff || { git -C /repo worktree remove --force $wt; exit 9; }
cd /verif
VERIF_REPO_SRC=$wt/src VERIF_EVIDENCE_DIR=/tmp/verif-scratch-evidence/$id /venv/bin/python bin/check $pr --no-bounded "$@" 2>&1 | grep -v "^  MISSING" | cut -c1-600 | head -${TSEED_LINES:-8}
git -C /repo worktree remove --force $wt
