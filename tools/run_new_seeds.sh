#!/bin/bash
# usage: tools/run_new_seeds.sh <seed-id>...   (own property's quick check, no bounded stand-ins first, then with)
for id in "$@"; do prop=${id%%-*}; /verif/tools/xseed.sh $id $prop | cut -c1-420; done
