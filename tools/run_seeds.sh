#!/bin/bash
export VERIF_EVIDENCE_DIR=/tmp/verif-scratch-evidence
# usage: tools/run_seeds.sh [Cxx ...]   applies each /verif/seeded/<id>/patch.diff to /repo, runs the property's quick check, reverts
cd /verif
for d in seeded/*/; do
  id=$(basename $d); prop=${id%%-*}
  if [ $# -gt 0 ] && [[ ! " $* " =~ " $prop " ]]; then continue; fi
  props=$(python3 -c "import json;m=json.load(open('$d/meta.json'));print(' '.join(m.get('check_with',[m['breaks_property']])))")
  for pr in $props; do
    if ! git -C /repo apply --check $PWD/$d/patch.diff 2>/dev/null; then echo "$id [$pr]: PATCH DOES NOT APPLY"; continue; fi
    git -C /repo apply $PWD/$d/patch.diff
    /venv/bin/python bin/check $pr > /tmp/seed_run.out 2>&1; rc=$?
    git -C /repo checkout -- .
    echo "$id [$pr]: exit=$rc $(grep -c '^VIOLATION' /tmp/seed_run.out) violation line(s); $(grep -E 'violated obligation|bounded stand-in' /tmp/seed_run.out | head -1 | cut -c1-200)"
  done
done
