#!/bin/bash
# usage: xseed.sh <seed-id> <Cxx> [Cxx...]
export VERIF_EVIDENCE_DIR=/tmp/verif-scratch-evidence
cd /verif; id=$1; shift
git -C /repo apply /verif/seeded/$id/patch.diff || exit 9
for pr in "$@"; do
  /venv/bin/python bin/check $pr --no-bounded > /tmp/xseed_$pr.out 2>&1; rc=$?
  echo "$id [$pr]: exit=$rc $(grep -c '^VIOLATION' /tmp/xseed_$pr.out) viol; $(grep -E 'violated obligation|ENGINE-ERROR|OUT-OF|MISSING|UNDECIDED' /tmp/xseed_$pr.out | head -2 | cut -c1-260)"
done
git -C /repo checkout -- .
